"""Shared infrastructure of the static verifier (no property logic).

* Repo        -- parsed view of /repo/pymablock (working tree), qualified-name index
* AnalysisError -- anchor vanished / idiom not understood  -> exit 2, never a pass
* Report      -- collects rule instances (ok / fail), writes evidence + replay files
* known-findings handling and exit-code policy
"""

from __future__ import annotations

import ast
import hashlib
import json
import os
import re
import sys
import time
from dataclasses import dataclass, field
from pathlib import Path
from typing import Any, Callable, Iterable

VERIF = Path(__file__).resolve().parent.parent
DEFAULT_REPO = Path(os.environ.get("SV_REPO", "/repo"))
KNOWN_FINDINGS = VERIF / "known_findings.json"

MODULES = (
    "algorithms",
    "algorithm_parsing",
    "series",
    "block_diagonalization",
    "linalg",
    "kpm",
    "second_quantization",
    "number_ordered_form",
    "__init__",
)


class AnalysisError(Exception):
    """The checker cannot decide: anchor missing, unknown idiom, floor not met."""

    def __init__(self, rule: str, msg: str):
        super().__init__(f"rule={rule} {msg}")
        self.rule = rule
        self.msg = msg


# ---------------------------------------------------------------------------
# Repo loader
# ---------------------------------------------------------------------------


def _clone(node):
    """Deep copy of an AST (or list of ASTs) following AST fields only: the loader's `_parent` back-links are not followed."""
    if isinstance(node, list):
        return [_clone(x) for x in node]
    if not isinstance(node, ast.AST):
        return node
    new = type(node).__new__(type(node))
    for f in node._fields:
        if hasattr(node, f):
            setattr(new, f, _clone(getattr(node, f)))
    for a in getattr(node, "_attributes", ()):
        if hasattr(node, a):
            setattr(new, a, getattr(node, a))
    return new


_KNOWN_NAMES = None


def _known_names() -> str:
    """Source text of the rule modules: a private helper whose name occurs there is one the rules speak about."""
    global _KNOWN_NAMES
    if _KNOWN_NAMES is None:
        here = Path(__file__).resolve().parent
        _KNOWN_NAMES = "\n".join(p.read_text() for p in sorted(here.glob("*.py")) if p.name != "selftest.py")
    return _KNOWN_NAMES


def _inline_unknown_helpers(tree: ast.Module) -> int:
    """A private helper (module-level function or method, name starting with one underscore) that no rule mentions by name is
    seen through: a statement `T = helper(args)` / `T = obj.helper(args)` / `return helper(args)` / `helper(args)` is replaced by
    the helper's own statements (locals renamed, parameters bound, `self` bound to the receiver) when the helper is a sequence of
    statements with at most one `return`, which is its last statement.  Extracting such a helper is a pure refactoring; the rules
    then find the loops, branches and stores where they look for them."""
    import copy
    import re

    known = _known_names()

    def unknown(name):
        return name.startswith("_") and not name.startswith("__") and re.search(r"\b" + re.escape(name) + r"\b", known) is None

    def simple(fn):
        if fn.decorator_list or fn.args.vararg or fn.args.kwarg or any(isinstance(x, (ast.Yield, ast.YieldFrom, ast.Nonlocal, ast.Global)) for x in ast.walk(fn)):
            return False
        body = [s_ for s_ in fn.body if not (isinstance(s_, ast.Expr) and isinstance(s_.value, ast.Constant))]
        rets = [x for x in ast.walk(fn) if isinstance(x, ast.Return) and not _in_nested_def(x, fn)]
        if len(rets) > 1 or (rets and rets[0] is not body[-1]):
            return False
        if any(isinstance(x, (ast.FunctionDef, ast.Lambda, ast.ClassDef)) for b_ in body for x in ast.walk(b_)):
            return False  # closures inside would capture renamed names: leave alone
        return bool(body)

    funcs, methods = {}, {}
    for n in tree.body:
        if isinstance(n, ast.FunctionDef) and unknown(n.name) and simple(n):
            funcs[n.name] = n
        if isinstance(n, ast.ClassDef):
            for m in n.body:
                if isinstance(m, ast.FunctionDef) and unknown(m.name) and simple(m) and m.args.args and m.args.args[0].arg == "self":
                    methods[(n.name, m.name)] = m
    count = [0]
    serial = [0]

    def callee_of(call, cls_name, host=None):
        if isinstance(call.func, ast.Name) and host is not None and re.search(r"\b" + re.escape(call.func.id) + r"\b", known) is None:
            # a sibling closure: a helper nested in a function that encloses the caller
            p_ = getattr(host, "_parent", None)
            while p_ is not None:
                if isinstance(p_, ast.FunctionDef):
                    for d_ in p_.body:
                        if isinstance(d_, ast.FunctionDef) and d_.name == call.func.id and d_ is not host and simple(d_):
                            return d_, None
                p_ = getattr(p_, "_parent", None)
        if isinstance(call.func, ast.Name) and call.func.id in funcs:
            return funcs[call.func.id], None
        if isinstance(call.func, ast.Attribute) and cls_name is not None and (cls_name, call.func.attr) in methods \
                and isinstance(call.func.value, ast.Name):
            return methods[(cls_name, call.func.attr)], call.func.value
        return None, None

    def expand(st, call, target_kind, cls_name, host):
        g, recv = callee_of(call, cls_name, host)
        if g is None or g is host or any(isinstance(a_, ast.Starred) for a_ in call.args) or any(k_.arg is None for k_ in call.keywords):
            return None
        params = [a_.arg for a_ in g.args.args] + [a_.arg for a_ in g.args.kwonlyargs]
        pos = [a_.arg for a_ in g.args.args]
        given = {}
        args = list(call.args)
        if recv is not None:
            given[pos[0]] = recv
            pos = pos[1:]
        if len(args) > len(pos):
            return None
        given.update(dict(zip(pos, args)))
        for k_ in call.keywords:
            if k_.arg in given or k_.arg not in params:
                return None
            given[k_.arg] = k_.value
        defaults = dict(zip([a_.arg for a_ in g.args.args][len(g.args.args) - len(g.args.defaults):], g.args.defaults))
        for a_, d_ in zip(g.args.kwonlyargs, g.args.kw_defaults):
            if d_ is not None:
                defaults[a_.arg] = d_
        if not all(p_ in given or p_ in defaults for p_ in params):
            return None
        serial[0] += 1
        tag = f"_h{serial[0]}_"
        body = _clone([s_ for s_ in g.body if not (isinstance(s_, ast.Expr) and isinstance(s_.value, ast.Constant))])
        local = set(params)
        for s_ in body:
            for n_ in ast.walk(s_):
                if isinstance(n_, ast.Name) and isinstance(n_.ctx, ast.Store) and not _in_comprehension(n_, s_):
                    local.add(n_.id)
        keep_self = recv is not None and isinstance(recv, ast.Name) and recv.id == "self"
        ren = {nm: tag + nm for nm in local if not (keep_self and nm == "self")}

        class Ren(ast.NodeTransformer):
            def visit_Name(self, node):
                if node.id in ren:
                    return ast.copy_location(ast.Name(id=ren[node.id], ctx=node.ctx), node)
                return node
        body = [Ren().visit(s_) for s_ in body]
        binds = []
        for p_ in params:
            if keep_self and p_ == "self":
                continue
            binds.append(ast.copy_location(ast.Assign(targets=[ast.Name(id=ren[p_], ctx=ast.Store())],
                                                      value=given[p_] if p_ in given else _clone(defaults[p_])), st))
        tail = []
        if body and isinstance(body[-1], ast.Return):
            val = body[-1].value if body[-1].value is not None else ast.Constant(value=None)
            body = body[:-1]
            if target_kind == "assign":
                tail = [ast.copy_location(ast.Assign(targets=st.targets, value=val), st)]
            elif target_kind == "return":
                tail = [ast.copy_location(ast.Return(value=val), st)]
            elif target_kind == "expr" and not isinstance(val, (ast.Name, ast.Constant)):
                tail = [ast.copy_location(ast.Expr(value=val), st)]  # a discarded name / constant has no effect and is dropped
        elif target_kind == "assign":
            tail = [ast.copy_location(ast.Assign(targets=st.targets, value=ast.Constant(value=None)), st)]
        elif target_kind == "return":
            tail = [ast.copy_location(ast.Return(value=ast.Constant(value=None)), st)]
        # constant arguments are propagated into the inlined statements (so that e.g. setattr(obj, <name>, v) becomes obj.<name> = v)
        consts = {b_.targets[0].id: b_.value for b_ in binds if isinstance(b_.value, ast.Constant)}
        # a plain name passed as argument stands for itself in the inlined statements, unless the helper binds that name anywhere
        # (also as a comprehension variable: capture)
        stored_in_body = {n_.id for s_ in body for n_ in ast.walk(s_) if isinstance(n_, ast.Name) and isinstance(n_.ctx, (ast.Store, ast.Del))}
        consts.update({b_.targets[0].id: b_.value for b_ in binds if isinstance(b_.value, ast.Name) and b_.value.id not in stored_in_body})
        if consts:
            class Prop(ast.NodeTransformer):
                def visit_Name(self, node):
                    if isinstance(node.ctx, ast.Load) and node.id in consts:
                        c_ = consts[node.id]
                        return ast.copy_location(ast.Constant(value=c_.value) if isinstance(c_, ast.Constant) else ast.Name(id=c_.id, ctx=ast.Load()), node)
                    return node
            rebound = {n_.id for s_ in body + tail for n_ in ast.walk(s_) if isinstance(n_, ast.Name) and isinstance(n_.ctx, ast.Store)}
            consts = {k_: v_ for k_, v_ in consts.items() if k_ not in rebound}
            body = [Prop().visit(s_) for s_ in body]
            tail = [Prop().visit(s_) for s_ in tail]
            binds = [b_ for b_ in binds if b_.targets[0].id not in consts]

        def attr_form(s_):
            if isinstance(s_, ast.Expr) and isinstance(s_.value, ast.Call) and isinstance(s_.value.func, ast.Name) and s_.value.func.id == "setattr" \
                    and len(s_.value.args) == 3 and isinstance(s_.value.args[1], ast.Constant) and isinstance(s_.value.args[1].value, str) \
                    and s_.value.args[1].value.isidentifier():
                o_, k_, v_ = s_.value.args
                return ast.copy_location(ast.Assign(targets=[ast.Attribute(value=o_, attr=k_.value, ctx=ast.Store())], value=v_), s_)
            return s_
        body = [attr_form(s_) for s_ in body]
        out = binds + body + tail
        for o_ in out:
            ast.fix_missing_locations(o_)
        count[0] += 1
        return out

    def process(block, cls_name, host, depth=0):
        i = 0
        while i < len(block):
            st = block[i]
            new = None
            if isinstance(st, ast.Assign) and isinstance(st.value, ast.Call):
                new = expand(st, st.value, "assign", cls_name, host)
            elif isinstance(st, ast.Return) and isinstance(st.value, ast.Call):
                new = expand(st, st.value, "return", cls_name, host)
            elif isinstance(st, ast.Expr) and isinstance(st.value, ast.Call):
                new = expand(st, st.value, "expr", cls_name, host)
            if new is not None and depth < 4:
                block[i:i + 1] = new
                process(new, cls_name, host, depth + 1)  # helpers of helpers
                i += len(new)
                continue
            for field in ("body", "orelse", "finalbody"):
                sub = getattr(st, field, None)
                if isinstance(sub, list) and not isinstance(st, (ast.FunctionDef, ast.ClassDef)):
                    process(sub, cls_name, host, depth)
            for h_ in getattr(st, "handlers", []) or []:
                process(h_.body, cls_name, host, depth)
            i += 1

    def visit_defs(node, cls_name):
        for ch in getattr(node, "body", []):
            if isinstance(ch, ast.ClassDef):
                visit_defs(ch, ch.name)
            elif isinstance(ch, ast.FunctionDef):
                if not (ch.name in funcs and funcs[ch.name] is ch) and not ((cls_name, ch.name) in methods and methods[(cls_name, ch.name)] is ch):
                    process(ch.body, cls_name, ch)
                else:
                    process(ch.body, cls_name, ch)  # helpers may call helpers
                visit_nested(ch, cls_name)

    def visit_nested(fn, cls_name):
        for n_ in ast.walk(fn):
            if isinstance(n_, ast.FunctionDef) and n_ is not fn:
                process(n_.body, cls_name, n_)
    visit_defs(tree, None)
    if count[0]:
        for node in ast.walk(tree):
            for child in ast.iter_child_nodes(node):
                child._parent = node  # type: ignore[attr-defined]
    return count[0]


def _in_nested_def(node, fn) -> bool:
    for d in ast.walk(fn):
        if isinstance(d, (ast.FunctionDef, ast.Lambda)) and d is not fn and any(x is node for x in ast.walk(d)):
            return True
    return False


def _inline_context_managers(tree: ast.Module) -> int:
    """`with C(args): BODY` where C is a class of the module whose __init__ only stores its arguments, whose __enter__ is a few
    statements and whose __exit__ does nothing when there was no exception is rewritten into the equivalent
        <enter statements>; try: BODY; except BaseException as error: <exit statements, `return <false>` -> raise, `return True` -> pass>
    so that the exception-handling rules see the handler where they look for it."""
    import copy

    classes = {c.name: c for c in tree.body if isinstance(c, ast.ClassDef)}
    models = {}
    for name, c in classes.items():
        meth = {m.name: m for m in c.body if isinstance(m, ast.FunctionDef)}
        if not {"__init__", "__enter__", "__exit__"} <= set(meth):
            continue
        init, enter, exit_ = meth["__init__"], meth["__enter__"], meth["__exit__"]
        strip = lambda b: [s_ for s_ in b if not (isinstance(s_, ast.Expr) and isinstance(s_.value, ast.Constant))]
        attrs, ok = {}, True
        for s_ in strip(init.body):
            if isinstance(s_, ast.Assign) and len(s_.targets) == 1 and isinstance(s_.targets[0], ast.Attribute) \
                    and isinstance(s_.targets[0].value, ast.Name) and s_.targets[0].value.id == "self" and isinstance(s_.value, ast.Name):
                attrs[s_.targets[0].attr] = s_.value.id
            else:
                ok = False
        eb = strip(enter.body)
        if eb and isinstance(eb[-1], ast.Return) and (eb[-1].value is None or (isinstance(eb[-1].value, ast.Constant) and eb[-1].value.value is None)):
            eb = eb[:-1]
        if not ok or any(isinstance(x, (ast.Return, ast.Yield)) for s_ in eb for x in ast.walk(s_)) or len(exit_.args.args) != 4:
            continue
        models[name] = (init, attrs, eb, exit_, strip(exit_.body))
    if not models:
        return 0

    def specialise(stmts, err, exceptional):
        """exit body for the exceptional (error is not None) or the normal case; None if not understood"""
        def const_test(t):
            txt = norm(t)
            if txt in (f"{err} is None", f"{exit_type} is None"):
                return not exceptional
            if txt in (f"{err} is not None", f"{exit_type} is not None"):
                return exceptional
            if isinstance(t, ast.BoolOp):
                vals = [const_test(v) for v in t.values]
                if isinstance(t.op, ast.And):
                    if any(v is False for v in vals):
                        return False
                    if all(v is True for v in vals):
                        return True
                    t.values = [v_ for v_, c_ in zip(t.values, vals) if c_ is None]  # drop the conjuncts that are known to hold
                else:
                    if any(v is True for v in vals):
                        return True
                    if all(v is False for v in vals):
                        return False
                    t.values = [v_ for v_, c_ in zip(t.values, vals) if c_ is None]
                if len(t.values) == 1:
                    t.__class__, t.__dict__ = t.values[0].__class__, t.values[0].__dict__
            if isinstance(t, ast.UnaryOp) and isinstance(t.op, ast.Not):
                v = const_test(t.operand)
                return None if v is None else (not v)
            return None
        out = []
        for s_ in stmts:
            if isinstance(s_, ast.If):
                v = const_test(s_.test)
                if v is not None:
                    sub = specialise(s_.body if v else s_.orelse, err, exceptional)
                    if sub is None:
                        return None
                    out += sub
                    if sub and isinstance(sub[-1], (ast.Raise, ast.Pass)) and getattr(sub[-1], "_ends", False):
                        return out
                    continue
                b1, b2 = specialise(s_.body, err, exceptional), specialise(s_.orelse, err, exceptional)
                if b1 is None or b2 is None:
                    return None
                n_ = copy.copy(s_)
                n_.body, n_.orelse = b1 or [ast.Pass()], b2
                out.append(n_)
                continue
            if isinstance(s_, ast.Return):
                truthy = isinstance(s_.value, ast.Constant) and bool(s_.value.value)
                falsy = s_.value is None or (isinstance(s_.value, ast.Constant) and not s_.value.value)
                if not (truthy or falsy):
                    return None
                end = ast.copy_location(ast.Pass() if (truthy or not exceptional) else ast.Raise(exc=None, cause=None), s_)
                end._ends = True
                out.append(end)
                return out
            out.append(s_)
        return out

    count = 0
    for holder in [n for n in ast.walk(tree)]:
        for field in ("body", "orelse", "finalbody"):
            blk = getattr(holder, field, None)
            if not isinstance(blk, list):
                continue
            for i, st in enumerate(list(blk)):
                if not (isinstance(st, ast.With) and len(st.items) == 1 and st.items[0].optional_vars is None
                        and isinstance(st.items[0].context_expr, ast.Call) and isinstance(st.items[0].context_expr.func, ast.Name)
                        and st.items[0].context_expr.func.id in models):
                    continue
                call = st.items[0].context_expr
                init, attrs, eb, exit_, xb = models[call.func.id]
                params = [a_.arg for a_ in init.args.args[1:]]
                if call.keywords and any(k_.arg is None for k_ in call.keywords) or len(call.args) > len(params):
                    continue
                given = dict(zip(params, call.args))
                for k_ in call.keywords:
                    given[k_.arg] = k_.value
                if set(given) != set(params):
                    continue
                exit_type, err = exit_.args.args[1].arg, exit_.args.args[2].arg
                tb = exit_.args.args[3].arg
                if any(isinstance(x, ast.Name) and x.id in (tb, exit_type) and norm(getattr(x, "_parent", x)) not in (f"{exit_type} is None", f"{exit_type} is not None")
                       for s_ in xb for x in ast.walk(s_)):
                    continue
                exc_body = specialise(_clone(xb), err, True)
                norm_body = specialise(_clone(xb), err, False)
                if exc_body is None or norm_body is None:
                    continue
                # what __exit__ does when the block ended normally goes to the `else:` of the try (`error` is None there)
                if norm_body and isinstance(norm_body[-1], ast.Pass) and getattr(norm_body[-1], "_ends", False):
                    norm_body = norm_body[:-1]
                if any(getattr(x, "_ends", False) for s_ in norm_body for x in ast.walk(s_)):
                    # a return in the middle of the normal case: keep it as the end of an if-arm only if the rest is its else-arm
                    def restructure(stmts):
                        for k, s_ in enumerate(stmts):
                            if isinstance(s_, ast.If) and s_.body and getattr(s_.body[-1], "_ends", False) and not s_.orelse:
                                s_.body = s_.body[:-1] or [ast.Pass()]
                                s_.orelse = restructure(stmts[k + 1:])
                                return stmts[:k + 1]
                        return stmts
                    norm_body = restructure(norm_body)
                    if any(getattr(x, "_ends", False) for s_ in norm_body for x in ast.walk(s_)):
                        continue

                class NoErr(ast.NodeTransformer):
                    def visit_Name(self, node):
                        if node.id == err and isinstance(node.ctx, ast.Load):
                            return ast.copy_location(ast.Constant(value=None), node)
                        return node
                norm_body = [NoErr().visit(s_) for s_ in norm_body if not isinstance(s_, ast.Pass)]
                if not (exc_body and isinstance(exc_body[-1], (ast.Raise, ast.Pass)) and getattr(exc_body[-1], "_ends", False)):
                    exc_body.append(ast.copy_location(ast.Raise(exc=None, cause=None), st))  # falling off __exit__ returns None: propagate

                class Sub(ast.NodeTransformer):
                    def visit_Attribute(self, node):
                        self.generic_visit(node)
                        if isinstance(node.value, ast.Name) and node.value.id == "self" and node.attr in attrs:
                            return _clone(given[attrs[node.attr]])
                        return node
                enter_stmts = [Sub().visit(_clone(s_)) for s_ in eb]
                exc_body = [Sub().visit(s_) for s_ in exc_body]
                norm_body = [Sub().visit(s_) for s_ in norm_body]
                tr = ast.Try(body=st.body, handlers=[ast.ExceptHandler(type=ast.Name(id="BaseException", ctx=ast.Load()), name=err, body=exc_body)],
                             orelse=norm_body, finalbody=[])
                ast.copy_location(tr, st)
                new = enter_stmts + [tr]
                for n_ in new:
                    for x in ast.walk(n_):
                        if not hasattr(x, "lineno") and isinstance(x, (ast.stmt, ast.expr, ast.excepthandler)):
                            ast.copy_location(x, st)
                    ast.fix_missing_locations(n_)
                j = blk.index(st)
                blk[j:j + 1] = new
                count += 1
    if count:
        for node in ast.walk(tree):
            for child in ast.iter_child_nodes(node):
                child._parent = node  # type: ignore[attr-defined]
    return count


def _inline_generators(tree: ast.Module) -> int:
    """`for T in g(args): BODY` with g a module-level generator whose single `yield E` is the last statement of its innermost loop
    is the same as g's own statements with `yield E` replaced by `T = E; BODY` (BODY has no break, g's locals are renamed).  The
    loop nest then sits where the rules look for it.  Returns the number of loops rewritten."""
    import copy

    gens = {}
    for fn in tree.body:
        if not isinstance(fn, ast.FunctionDef) or fn.decorator_list or fn.args.vararg or fn.args.kwarg or fn.args.kwonlyargs:
            continue
        ys = [n for n in ast.walk(fn) if isinstance(n, (ast.Yield, ast.YieldFrom))]
        if len(ys) != 1 or isinstance(ys[0], ast.YieldFrom) or ys[0].value is None:
            continue
        if any(isinstance(n, ast.Return) for n in ast.walk(fn)):
            continue
        # the yield must be an expression statement, last in the body of its innermost loop, loops nested directly
        body = [s_ for s_ in fn.body if not (isinstance(s_, ast.Expr) and isinstance(s_.value, ast.Constant))]
        ok, cur = True, body
        while True:
            loops = [s_ for s_ in cur if isinstance(s_, (ast.For, ast.While))]
            if len(loops) > 1 or any(isinstance(s_, (ast.Try, ast.With)) for s_ in cur):
                ok = False
                break
            if not loops:
                ok = bool(cur) and isinstance(cur[-1], ast.Expr) and cur[-1].value is ys[0] and cur is not body
                break
            if loops[0] is not cur[-1] or not isinstance(loops[0], ast.For) or loops[0].orelse:
                ok = False
                break
            cur = loops[0].body
        if ok:
            gens[fn.name] = fn
    if not gens:
        return 0
    count = 0
    for owner in [n for n in ast.walk(tree) if isinstance(n, ast.FunctionDef) and n.name not in gens]:
        for holder in [n for n in ast.walk(owner) if hasattr(n, "body") and isinstance(getattr(n, "body"), list)]:
            for field in ("body", "orelse"):
                blk = getattr(holder, field, None)
                if not isinstance(blk, list):
                    continue
                i = 0
                while i < len(blk):
                    st = blk[i]
                    if isinstance(st, ast.For) and not st.orelse and isinstance(st.iter, ast.Call) and isinstance(st.iter.func, ast.Name) \
                            and st.iter.func.id in gens and not any(isinstance(x, ast.Break) for b_ in st.body for x in ast.walk(b_)) \
                            and not any(isinstance(a_, ast.Starred) for a_ in st.iter.args) and not any(k_.arg is None for k_ in st.iter.keywords):
                        g = gens[st.iter.func.id]
                        params = [a_.arg for a_ in g.args.args]
                        given = dict(zip(params, st.iter.args))
                        for k_ in st.iter.keywords:
                            given[k_.arg] = k_.value
                        defaults = dict(zip(params[len(params) - len(g.args.defaults):], g.args.defaults))
                        if not all(p_ in given or p_ in defaults for p_ in params) or len(st.iter.args) > len(params):
                            i += 1
                            continue
                        gbody = _clone([s_ for s_ in g.body if not (isinstance(s_, ast.Expr) and isinstance(s_.value, ast.Constant))])
                        local = set(params)
                        for s_ in gbody:
                            for n_ in ast.walk(s_):
                                if isinstance(n_, ast.Name) and isinstance(n_.ctx, ast.Store) and not _in_comprehension(n_, s_):
                                    local.add(n_.id)
                        ren = {nm: f"_g_{nm}" for nm in local}

                        class Ren(ast.NodeTransformer):
                            def visit_Name(self, node):
                                if node.id in ren:
                                    return ast.copy_location(ast.Name(id=ren[node.id], ctx=node.ctx), node)
                                return node
                        gbody = [Ren().visit(s_) for s_ in gbody]
                        # replace the yield statement
                        def put(stmts):
                            out = []
                            for s_ in stmts:
                                if isinstance(s_, ast.Expr) and isinstance(s_.value, ast.Yield):
                                    out.append(ast.copy_location(ast.Assign(targets=[st.target], value=s_.value.value), st))
                                    out.extend(st.body)
                                else:
                                    if isinstance(s_, ast.For):
                                        s_.body = put(s_.body)
                                    out.append(s_)
                            return out
                        gbody = put(gbody)
                        binds = [ast.copy_location(ast.Assign(targets=[ast.Name(id=ren[p_], ctx=ast.Store())],
                                                              value=given[p_] if p_ in given else _clone(defaults[p_])), st) for p_ in params]
                        for b_ in binds + gbody:
                            ast.fix_missing_locations(b_)
                        blk[i:i + 1] = binds + gbody
                        count += 1
                        i += len(binds) + len(gbody)
                        continue
                    i += 1
    if count:
        for node in ast.walk(tree):
            for child in ast.iter_child_nodes(node):
                child._parent = node  # type: ignore[attr-defined]
    return count


def _in_comprehension(name_node: ast.Name, root: ast.AST) -> bool:
    for n in ast.walk(root):
        if isinstance(n, (ast.ListComp, ast.SetComp, ast.DictComp, ast.GeneratorExp)):
            for g in n.generators:
                if any(x is name_node for x in ast.walk(g.target)):
                    return True
    return False


_SENTINEL_NAMES = {"zero", "one", "None", "PENDING", "object", "matmul", "mul", "True", "False", "One", "Zero"}


def _canonical_comparisons(tree: ast.Module) -> None:
    """`zero is X`, `None is not X`, `0 == n`: the constant / sentinel goes to the right-hand side, where the code base (and hence the
    rules) writes it.  Only single comparisons with ==, !=, is, is not, whose left operand is a constant or a bare sentinel name and
    whose right operand is not: swapping the operands of these operators never changes the value."""
    def sentinel(e):
        if isinstance(e, ast.UnaryOp) and isinstance(e.op, ast.USub):
            e = e.operand
        return isinstance(e, ast.Constant) or (isinstance(e, ast.Name) and e.id in _SENTINEL_NAMES) or \
            (isinstance(e, ast.Attribute) and isinstance(e.value, ast.Name) and e.attr in ("masked",) and e.value.id in ("ma",)) or \
            (isinstance(e, ast.Attribute) and norm(e) in ("np.ma.masked", "sympy.S.Zero", "sympy.S.One", "S.Zero", "S.One"))
    # `not (a is b)` / `not (a in b)` / `not (a == b)` read `a is not b` / `a not in b` / `a != b`
    class _Neg(ast.NodeTransformer):
        def visit_UnaryOp(self, node):
            self.generic_visit(node)
            flip = {ast.Is: ast.IsNot, ast.In: ast.NotIn, ast.Eq: ast.NotEq}
            if isinstance(node.op, ast.Not) and isinstance(node.operand, ast.Compare) and len(node.operand.ops) == 1 \
                    and type(node.operand.ops[0]) in flip:
                c = node.operand
                return ast.copy_location(ast.Compare(left=c.left, ops=[flip[type(c.ops[0])]()], comparators=c.comparators), node)
            return node
    _Neg().visit(tree)
    for node_ in ast.walk(tree):
        for child_ in ast.iter_child_nodes(node_):
            child_._parent = node_  # type: ignore[attr-defined]
    # order comparisons: the simpler operand first (bare name < subscript / attribute < anything else < constant), e.g.
    # `0 < op_power` reads `op_power > 0` and `self._n_inf_order > op_index` reads `op_index < self._n_inf_order`
    def rank(e):
        if isinstance(e, ast.UnaryOp) and isinstance(e.op, ast.USub):
            e = e.operand
        if isinstance(e, ast.Name) and e.id not in _SENTINEL_NAMES:
            return 0
        if isinstance(e, (ast.Subscript, ast.Attribute)) and not sentinel(e):
            return 1
        if sentinel(e):
            return 3
        return 2
    mirror = {ast.Lt: ast.Gt, ast.Gt: ast.Lt, ast.LtE: ast.GtE, ast.GtE: ast.LtE}
    for n in ast.walk(tree):
        if isinstance(n, ast.Compare) and len(n.ops) == 1 and type(n.ops[0]) in mirror and rank(n.left) > rank(n.comparators[0]) \
                and not any(isinstance(x, (ast.Call, ast.NamedExpr)) for side in (n.left, n.comparators[0]) for x in ast.walk(side)):
            n.left, n.comparators[0] = n.comparators[0], n.left
            n.ops = [mirror[type(n.ops[0])]()]
    # a call compared with a bare name / constant: the call comes first (`np.abs(d) < atol`, not `atol > np.abs(d)`); the bare side has
    # no effects, so the order of evaluation does not matter
    def bare(e):
        return isinstance(e, (ast.Name, ast.Constant)) or (isinstance(e, ast.UnaryOp) and isinstance(e.operand, (ast.Name, ast.Constant)))
    has_call = lambda e: any(isinstance(x, ast.Call) for x in ast.walk(e))
    for n in ast.walk(tree):
        if isinstance(n, ast.Compare) and len(n.ops) == 1 and type(n.ops[0]) in mirror and bare(n.left) and has_call(n.comparators[0]) \
                and not any(isinstance(x, ast.NamedExpr) for x in ast.walk(n.comparators[0])):
            n.left, n.comparators[0] = n.comparators[0], n.left
            n.ops = [mirror[type(n.ops[0])]()]
    for n in ast.walk(tree):
        if isinstance(n, ast.Compare) and len(n.ops) == 1 and isinstance(n.ops[0], (ast.Eq, ast.NotEq, ast.Is, ast.IsNot)) \
                and sentinel(n.left) and not sentinel(n.comparators[0]):
            n.left, n.comparators[0] = n.comparators[0], n.left
            n.left._parent, n.comparators[0]._parent = n, n  # type: ignore[attr-defined]


def _fold_fill_loops(tree: ast.Module) -> int:
    """`acc = []` directly followed by `for T in IT: [if C:] acc.append(E)` reads `acc = [E for T in IT if C]`; the same for
    `acc = {}` + `acc[K] = V`.  Only when the loop does nothing else, the accumulator does not occur in IT / E / C / K, and the loop
    variables are not used after the loop (in a comprehension they would not exist there).  The value of `acc` is the same; what
    changes is that the loop variables stay local, which the last condition makes unobservable."""
    n_folded = 0
    for host in ast.walk(tree):
        for field in ("body", "orelse", "finalbody"):
            blk = getattr(host, field, None)
            if not (isinstance(blk, list) and blk and isinstance(blk[0], ast.stmt)):
                continue
            i = 0
            while i + 1 < len(blk):
                a, loop = blk[i], blk[i + 1]
                i += 1
                if not (isinstance(a, ast.Assign) and len(a.targets) == 1 and isinstance(a.targets[0], ast.Name) and isinstance(loop, ast.For)
                        and not loop.orelse and len(loop.body) == 1):
                    continue
                acc = a.targets[0].id
                kind = "list" if (isinstance(a.value, ast.List) and not a.value.elts) else ("dict" if (isinstance(a.value, ast.Dict) and not a.value.keys) else None)
                if kind is None:
                    continue
                body, conds = loop.body[0], []
                while isinstance(body, ast.If) and not body.orelse and len(body.body) == 1:
                    conds.append(body.test)
                    body = body.body[0]
                if kind == "list" and isinstance(body, ast.Expr) and isinstance(body.value, ast.Call) and isinstance(body.value.func, ast.Attribute) \
                        and body.value.func.attr == "append" and isinstance(body.value.func.value, ast.Name) and body.value.func.value.id == acc \
                        and len(body.value.args) == 1 and not body.value.keywords and not isinstance(body.value.args[0], ast.Starred):
                    parts = [body.value.args[0]]
                    comp = ast.ListComp(elt=body.value.args[0], generators=[ast.comprehension(target=loop.target, iter=loop.iter, ifs=conds, is_async=0)])
                elif kind == "dict" and isinstance(body, ast.Assign) and len(body.targets) == 1 and isinstance(body.targets[0], ast.Subscript) \
                        and isinstance(body.targets[0].value, ast.Name) and body.targets[0].value.id == acc:
                    parts = [body.targets[0].slice, body.value]
                    comp = ast.DictComp(key=body.targets[0].slice, value=body.value,
                                        generators=[ast.comprehension(target=loop.target, iter=loop.iter, ifs=conds, is_async=0)])
                else:
                    continue
                mentions = lambda e, nm: any(isinstance(x, ast.Name) and x.id == nm for x in ast.walk(e))
                if any(mentions(e, acc) for e in parts + conds + [loop.iter]):
                    continue
                if any(isinstance(x, (ast.NamedExpr, ast.Yield, ast.YieldFrom, ast.Await)) for e in parts + conds + [loop.iter] for x in ast.walk(e)):
                    continue
                loop_vars = {x.id for x in ast.walk(loop.target) if isinstance(x, ast.Name)}
                if not all(isinstance(x, (ast.Name, ast.Tuple, ast.List)) for x in ast.walk(loop.target) if not isinstance(x, (ast.Store, ast.Load))):
                    continue
                # the enclosing function: are the loop variables read anywhere outside this loop?
                fn = host
                while fn is not None and not isinstance(fn, (ast.FunctionDef, ast.AsyncFunctionDef, ast.Module)):
                    fn = getattr(fn, "_parent", None)
                inside = {id(x) for x in ast.walk(loop)}
                if fn is None or any(isinstance(x, ast.Name) and x.id in loop_vars and id(x) not in inside for x in ast.walk(fn)):
                    continue
                new = ast.copy_location(ast.Assign(targets=a.targets, value=ast.copy_location(comp, a.value)), a)
                ast.fix_missing_locations(new)
                blk[i - 1:i + 1] = [new]
                n_folded += 1
                i -= 1
    if n_folded:
        for node in ast.walk(tree):
            for child in ast.iter_child_nodes(node):
                child._parent = node  # type: ignore[attr-defined]
    return n_folded


def _fold_conditional_assignments(tree: ast.Module) -> int:
    """`if c: x = A` / `else: x = B` (nothing else in either arm, the same plain name) reads `x = A if c else B`."""
    n_folded = 0
    for host in ast.walk(tree):
        for field in ("body", "orelse", "finalbody"):
            blk = getattr(host, field, None)
            if not (isinstance(blk, list) and blk and isinstance(blk[0], ast.stmt)):
                continue
            for i, s_ in enumerate(blk):
                if isinstance(s_, ast.If) and len(s_.body) == 1 and len(s_.orelse) == 1 and all(
                        isinstance(b_, ast.Assign) and len(b_.targets) == 1 and isinstance(b_.targets[0], ast.Name) for b_ in (s_.body[0], s_.orelse[0])) \
                        and s_.body[0].targets[0].id == s_.orelse[0].targets[0].id \
                        and not any(isinstance(x, ast.NamedExpr) for x in ast.walk(s_)):
                    new = ast.Assign(targets=[ast.Name(id=s_.body[0].targets[0].id, ctx=ast.Store())],
                                     value=ast.IfExp(test=s_.test, body=s_.body[0].value, orelse=s_.orelse[0].value))
                    blk[i] = ast.fix_missing_locations(ast.copy_location(new, s_))
                    n_folded += 1
    if n_folded:
        for node in ast.walk(tree):
            for child in ast.iter_child_nodes(node):
                child._parent = node  # type: ignore[attr-defined]
    return n_folded


def _fold_return_temps(tree: ast.Module) -> int:
    """`x = E` directly followed by `return x`, with no other occurrence of `x` in the function, reads `return E`."""
    n_folded = 0
    for fn in ast.walk(tree):
        if not isinstance(fn, (ast.FunctionDef, ast.AsyncFunctionDef)):
            continue
        counts: dict = {}
        for x in ast.walk(fn):
            if isinstance(x, ast.Name):
                counts[x.id] = counts.get(x.id, 0) + 1
        for host in ast.walk(fn):
            for field in ("body", "orelse", "finalbody"):
                blk = getattr(host, field, None)
                if not (isinstance(blk, list) and len(blk) >= 2 and isinstance(blk[0], ast.stmt)):
                    continue
                a, r = blk[-2], blk[-1]
                if isinstance(r, ast.Return) and isinstance(r.value, ast.Name) and isinstance(a, ast.Assign) and len(a.targets) == 1 \
                        and isinstance(a.targets[0], ast.Name) and a.targets[0].id == r.value.id and counts.get(r.value.id) == 2:
                    blk[-2:] = [ast.copy_location(ast.Return(value=a.value), a)]
                    n_folded += 1
    if n_folded:
        for node in ast.walk(tree):
            for child in ast.iter_child_nodes(node):
                child._parent = node  # type: ignore[attr-defined]
    return n_folded


def _canonical_two_armed_ifs(tree: ast.Module) -> int:
    """`if not c: A` / `else: B` (both arms present, no elif) reads `if c: B` / `else: A`."""
    n_ = 0
    for s_ in ast.walk(tree):
        if isinstance(s_, ast.If) and s_.orelse and not (len(s_.orelse) == 1 and isinstance(s_.orelse[0], ast.If)) \
                and isinstance(s_.test, ast.UnaryOp) and isinstance(s_.test.op, ast.Not):
            s_.test, s_.body, s_.orelse = s_.test.operand, s_.orelse, s_.body
            n_ += 1
    if n_:
        for node in ast.walk(tree):
            for child in ast.iter_child_nodes(node):
                child._parent = node  # type: ignore[attr-defined]
    return n_


def _canonical_call_style(tree: ast.Module, all_defs: dict) -> None:
    """Calls of the package's own module-level functions in the argument style of the reference tree: an argument that the call passes
    by keyword although it is the next positional parameter (`f(a, b=b)` for `def f(a, b)`) is read positionally when the reference
    spelling of the code does so -- approximated by: leading parameters without a default are positional, parameters with a default
    are keywords.  Binding is unchanged either way (same parameter, same value, same evaluation order of the arguments as written is
    NOT guaranteed by Python only when keywords are reordered; here the relative order of the argument expressions is kept)."""
    for n in ast.walk(tree):
        if not (isinstance(n, ast.Call) and isinstance(n.func, ast.Name) and n.func.id in all_defs):
            continue
        f = all_defs[n.func.id]
        if f.args.vararg or f.args.posonlyargs or f.args.kwarg or any(isinstance(a, ast.Starred) for a in n.args) or any(k.arg is None for k in n.keywords):
            continue
        params = [a.arg for a in f.args.args]
        n_required = len(params) - len(f.args.defaults)
        if len(n.args) > len(params):
            continue
        given = dict(zip(params, n.args))
        order = list(given)
        clash = False
        for k in n.keywords:
            if k.arg in given:
                clash = True
            given[k.arg] = k.value
            order.append(k.arg)
        if clash:
            continue
        # the arguments as written must already be in signature order for the rewrite to keep their evaluation order
        sig = [p for p in params + [a.arg for a in f.args.kwonlyargs] if p in given]
        if [p for p in order if p in sig] != sig or set(order) - set(sig):
            continue
        new_args, new_kw = [], []
        for i, p in enumerate(sig):
            if p in params and params.index(p) == len(new_args) and params.index(p) < n_required and not new_kw:
                new_args.append(given[p])
            else:
                new_kw.append(ast.keyword(arg=p, value=given[p]))
        n.args, n.keywords = new_args, new_kw


def _canonical_index_parameter(tree: ast.Module) -> None:
    """The element-evaluation closures of the package have the signature `(*index)`, and the rules speak of `index`.  A closure
    or lambda nested in a function whose only parameter is a vararg with another name gets it renamed to `index` in the loaded
    tree (positions are kept), unless that would capture a name: then the tree is left alone and the rules decide."""
    for fn in ast.walk(tree):
        if not isinstance(fn, (ast.FunctionDef, ast.Lambda)):
            continue
        a = fn.args
        if a.vararg is None or a.args or a.posonlyargs or a.kwonlyargs or a.kwarg or a.vararg.arg in ("index", "_"):
            continue
        p = getattr(fn, "_parent", None)
        while p is not None and not isinstance(p, (ast.FunctionDef, ast.Lambda)):
            p = getattr(p, "_parent", None)
        if p is None:
            continue  # module-level or method-level functions keep their signature
        body = fn.body if isinstance(fn.body, list) else [fn.body]
        names = {n.id for b in body for n in ast.walk(b) if isinstance(n, ast.Name)}
        if "index" in names:
            continue
        old = a.vararg.arg
        a.vararg.arg = "index"
        for b in body:
            for n in ast.walk(b):
                if isinstance(n, ast.Name) and n.id == old:
                    n.id = "index"


class Repo:
    """Parsed source of the package under ``root/pymablock`` (tests excluded)."""

    def __init__(self, root: Path | str = DEFAULT_REPO):
        self.root = Path(root)
        self.pkg = self.root / "pymablock"
        self.trees: dict[str, ast.Module] = {}
        self.sources: dict[str, str] = {}
        self.renamed: list = []  # (module, unit, found local, reference spelling)
        if not self.pkg.is_dir():
            raise AnalysisError("loader", f"package directory {self.pkg} not found")
        for name in MODULES:
            path = self.pkg / f"{name}.py"
            if not path.exists():
                raise AnalysisError("loader", f"module {path} not found")
            src = path.read_text()
            self.sources[name] = src
            try:
                tree = ast.parse(src, filename=str(path))
            except SyntaxError as e:  # a variant that does not compile is not our business
                raise AnalysisError("loader", f"{path} does not parse: {e}")
            # locals that were merely renamed are read in the spelling the rules know (a sound alpha-renaming, see sv/alpha.py)
            from . import alpha
            self.renamed.extend((name, *r_) for r_ in alpha.rename_back(tree, name))
            for node in ast.walk(tree):
                for child in ast.iter_child_nodes(node):
                    child._parent = node  # type: ignore[attr-defined]
            _fold_fill_loops(tree)
            _fold_return_temps(tree)
            _canonical_two_armed_ifs(tree)
            _inline_generators(tree)
            _inline_context_managers(tree)
            # _inline_unknown_helpers(tree) is NOT applied globally: seeing through every helper the rules do not name weakens the
            # flow-sensitive resolution inside the hosts (tried: a memo-key variant went unnoticed); rules call it on a copy
            # of the function they study when they need it (`expanded_function`)
            _canonical_index_parameter(tree)
            _canonical_comparisons(tree)
            self.trees[name] = tree
        if os.environ.get("SV_CALL_STYLE", "1") == "1":
            defs_by_name: dict = {}
            for t_ in self.trees.values():
                for n_ in t_.body:
                    if isinstance(n_, ast.FunctionDef):
                        defs_by_name.setdefault(n_.name, []).append(n_)
            unique = {k: v[0] for k, v in defs_by_name.items() if len(v) == 1}
            for name, t_ in self.trees.items():
                if name != "algorithms":
                    _canonical_call_style(t_, unique)
                    for node in ast.walk(t_):
                        for child in ast.iter_child_nodes(node):
                            child._parent = node  # type: ignore[attr-defined]
        # every other .py in the package (not tests) is parsed too so that
        # who-may-write rules see the whole package
        self.extra: dict[str, ast.Module] = {}
        for path in sorted(self.pkg.glob("*.py")):
            if path.stem in MODULES or path.stem.startswith("_version"):
                continue
            try:
                tree = ast.parse(path.read_text(), filename=str(path))
            except SyntaxError as e:
                raise AnalysisError("loader", f"{path} does not parse: {e}")
            for node in ast.walk(tree):
                for child in ast.iter_child_nodes(node):
                    child._parent = node  # type: ignore[attr-defined]
            self.extra[path.stem] = tree

    def expanded(self, module: str) -> ast.Module:
        """A copy of the module's tree in which the private helpers that no rule names are seen through (their statements stand
        where they were called).  For rules that look for loops / stores of one function and do not find them: the work may have
        been moved into an extracted helper."""
        cache = self.__dict__.setdefault("_expanded", {})
        if module not in cache:
            t = _clone(self.trees[module])
            for node in ast.walk(t):
                for child in ast.iter_child_nodes(node):
                    child._parent = node  # type: ignore[attr-defined]
            _inline_unknown_helpers(t)
            cache[module] = t
        return cache[module]

    def find_expanded(self, qual: str, rule: str = "anchor") -> ast.AST:
        module, *parts = qual.split("::")
        nodes: list[ast.AST] = [self.expanded(module)]
        for part in parts:
            nxt: list[ast.AST] = []
            for n in nodes:
                nxt.extend(_defs_named(n, part))
            nodes = nxt
        if len(nodes) != 1:
            raise AnalysisError(rule, f"anchor {qual!r}: expected exactly 1 definition, found {len(nodes)}")
        return nodes[0]

    # -- addressing ---------------------------------------------------------
    def all_trees(self) -> dict[str, ast.Module]:
        return {**self.trees, **self.extra}

    def path(self, module: str) -> str:
        return str(self.pkg / f"{module}.py")

    def rel(self, module: str) -> str:
        return f"pymablock/{module}.py"

    def digest(self) -> str:
        h = hashlib.sha256()
        for name in MODULES:
            h.update(self.sources[name].encode())
        return h.hexdigest()[:16]

    def find_all(self, qual: str) -> list[ast.AST]:
        """All defs matching ``module::a::b`` (a.b nested defs/classes)."""
        module, *parts = qual.split("::")
        if module not in self.trees:
            raise AnalysisError("anchor", f"unknown module {module}")
        nodes: list[ast.AST] = [self.trees[module]]
        for part in parts:
            nxt: list[ast.AST] = []
            for n in nodes:
                nxt.extend(_defs_named(n, part))
            nodes = nxt
        return nodes

    def find(self, qual: str, rule: str = "anchor") -> ast.AST:
        nodes = self.find_all(qual)
        if len(nodes) != 1:
            raise AnalysisError(
                rule, f"anchor {qual!r}: expected exactly 1 definition, found {len(nodes)}"
            )
        return nodes[0]

    def loc(self, module: str, node: ast.AST | None) -> str:
        line = getattr(node, "lineno", 0) if node is not None else 0
        return f"{self.rel(module)}:{line}"


def _defs_named(scope: ast.AST, name: str) -> list[ast.AST]:
    """Definitions called ``name`` directly inside ``scope`` (not in nested defs)."""
    out = []
    stack = list(ast.iter_child_nodes(scope))
    while stack:
        n = stack.pop(0)
        if isinstance(n, (ast.FunctionDef, ast.AsyncFunctionDef, ast.ClassDef)):
            if n.name == name:
                out.append(n)
            continue  # do not descend into other defs
        if isinstance(n, ast.Lambda):
            continue
        stack[0:0] = list(ast.iter_child_nodes(n))
    out.sort(key=lambda n: n.lineno)
    return out


def require_locals(func: ast.AST, names, rule: str) -> None:
    """A rule that finds its constructs through the NAME of a local variable cannot say anything once that local is called
    otherwise: the anchor is gone, which is `cannot decide` (exit 2), never a violation."""
    bound = {n.id for n in ast.walk(func) if isinstance(n, ast.Name) and isinstance(n.ctx, (ast.Store, ast.Del))}
    for f in ast.walk(func):
        if isinstance(f, (ast.FunctionDef, ast.Lambda)):
            a = f.args
            bound |= {x.arg for x in [*a.posonlyargs, *a.args, *a.kwonlyargs]}
            if a.vararg:
                bound.add(a.vararg.arg)
            if a.kwarg:
                bound.add(a.kwarg.arg)
        if isinstance(f, ast.FunctionDef):
            bound.add(f.name)
    missing = [n for n in names if n not in bound]
    if missing:
        raise AnalysisError(rule, f"{getattr(func, 'name', '?')}: the local name(s) {missing} this rule is anchored on do not exist (renamed?)")


def own_nodes(func: ast.AST) -> Iterable[ast.AST]:
    """Pre-order walk (source order) of a function body without entering nested
    defs / lambdas / classes (the nested def node itself is yielded)."""
    for child in ast.iter_child_nodes(func):
        yield child
        if isinstance(child, (ast.FunctionDef, ast.AsyncFunctionDef, ast.ClassDef, ast.Lambda)):
            continue
        yield from own_nodes(child)


def nested_defs(func: ast.AST) -> list[ast.FunctionDef]:
    return [
        n for n in own_nodes(func) if isinstance(n, (ast.FunctionDef, ast.AsyncFunctionDef))
    ]


def norm(node: ast.AST | str) -> str:
    """Normalised statement/expression text used in construct keys (no line numbers)."""
    if isinstance(node, str):
        return re.sub(r"\s+", " ", node).strip()
    try:
        return re.sub(r"\s+", " ", ast.unparse(node)).strip()
    except Exception:  # pragma: no cover
        return type(node).__name__


def dotted(node: ast.AST) -> str | None:
    """``a.b.c`` for Name/Attribute chains, else None."""
    parts = []
    while isinstance(node, ast.Attribute):
        parts.append(node.attr)
        node = node.value
    if isinstance(node, ast.Name):
        parts.append(node.id)
        return ".".join(reversed(parts))
    return None


def call_name(node: ast.AST) -> str | None:
    if isinstance(node, ast.Call):
        return dotted(node.func)
    return None


# ---------------------------------------------------------------------------
# Report
# ---------------------------------------------------------------------------


@dataclass
class Instance:
    rule: str
    instance: str
    status: str  # ok | fail
    detail: str = ""
    key: str = ""
    where: str = ""
    extra: dict = field(default_factory=dict)


class Report:
    """Per-run collection of rule instances of one property."""

    def __init__(self, prop: str, tier: str, repo: Repo):
        self.prop = prop
        self.tier = tier
        self.repo = repo
        self.instances: list[Instance] = []
        self.analysed: dict[str, Any] = {}
        self.notes: list[str] = []
        self.t0 = time.time()

    def ok(self, rule: str, instance: str, detail: str = "", where: str = "", **extra):
        self.instances.append(Instance(rule, instance, "ok", detail, "", where, extra))

    def fail(self, rule: str, key: str, detail: str, where: str = "", **extra):
        """Record a violated rule instance.  ``key`` identifies the construct
        (qualified anchor + normalised residual / statement), never a line."""
        self.instances.append(Instance(rule, key, "fail", detail, key, where, extra))

    def check(self, cond: bool, rule: str, instance: str, detail: str = "", where: str = ""):
        if cond:
            self.ok(rule, instance, detail, where)
        else:
            self.fail(rule, instance, detail, where)
        return cond

    def count(self, what: str, n: Any):
        self.analysed[what] = n

    def note(self, text: str):
        self.notes.append(text)

    def floor(self, rule: str, what: str, found: int, minimum: int):
        """Vacuity guard: fewer instances than confirmed by hand => analysis broken."""
        if found < minimum:
            raise AnalysisError(
                rule, f"instance floor not met for {what}: found {found}, need >= {minimum}"
            )

    # -- results --------------------------------------------------------------
    def fails(self) -> list[Instance]:
        return [i for i in self.instances if i.status == "fail"]

    def rules(self) -> list[str]:
        seen = []
        for i in self.instances:
            if i.rule not in seen:
                seen.append(i.rule)
        return seen


# ---------------------------------------------------------------------------
# known findings
# ---------------------------------------------------------------------------


def load_known() -> list[dict]:
    if not KNOWN_FINDINGS.exists():
        return []
    data = json.loads(KNOWN_FINDINGS.read_text())
    return data.get("findings", [])


def known_match(prop: str, inst: Instance, known: list[dict]) -> dict | None:
    for k in known:
        if k.get("status") != "known":
            continue
        if prop not in k.get("properties", []):
            continue
        if k.get("rule") == inst.rule and k.get("key") == inst.key:
            return k
    return None
