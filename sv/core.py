"""Shared infrastructure of the static verifier (no property logic).

* Repo        -- parsed view of /repo/pymablock (working tree), qualified-name index
* AnalysisError -- anchor vanished / idiom not understood  -> exit 2, never a pass
* Report      -- collects rule instances (ok / fail), writes evidence + replay files
* known-findings handling and exit-code policy
"""

from __future__ import annotations

import ast
import hashlib
import json
import os
import re
import sys
import time
from dataclasses import dataclass, field
from pathlib import Path
from typing import Any, Callable, Iterable

VERIF = Path(__file__).resolve().parent.parent
DEFAULT_REPO = Path(os.environ.get("SV_REPO", "/repo"))
KNOWN_FINDINGS = VERIF / "known_findings.json"

MODULES = (
    "algorithms",
    "algorithm_parsing",
    "series",
    "block_diagonalization",
    "linalg",
    "kpm",
    "second_quantization",
    "number_ordered_form",
    "__init__",
)


class AnalysisError(Exception):
    """The checker cannot decide: anchor missing, unknown idiom, floor not met."""

    def __init__(self, rule: str, msg: str):
        super().__init__(f"rule={rule} {msg}")
        self.rule = rule
        self.msg = msg


# ---------------------------------------------------------------------------
# Repo loader
# ---------------------------------------------------------------------------


def _canonical_index_parameter(tree: ast.Module) -> None:
    """The element-evaluation closures of the package have the signature `(*index)`, and the rules speak of `index`.  A closure
    or lambda nested in a function whose only parameter is a vararg with another name gets it renamed to `index` in the loaded
    tree (positions are kept), unless that would capture a name: then the tree is left alone and the rules decide."""
    for fn in ast.walk(tree):
        if not isinstance(fn, (ast.FunctionDef, ast.Lambda)):
            continue
        a = fn.args
        if a.vararg is None or a.args or a.posonlyargs or a.kwonlyargs or a.kwarg or a.vararg.arg in ("index", "_"):
            continue
        p = getattr(fn, "_parent", None)
        while p is not None and not isinstance(p, (ast.FunctionDef, ast.Lambda)):
            p = getattr(p, "_parent", None)
        if p is None:
            continue  # module-level or method-level functions keep their signature
        body = fn.body if isinstance(fn.body, list) else [fn.body]
        names = {n.id for b in body for n in ast.walk(b) if isinstance(n, ast.Name)}
        if "index" in names:
            continue
        old = a.vararg.arg
        a.vararg.arg = "index"
        for b in body:
            for n in ast.walk(b):
                if isinstance(n, ast.Name) and n.id == old:
                    n.id = "index"


class Repo:
    """Parsed source of the package under ``root/pymablock`` (tests excluded)."""

    def __init__(self, root: Path | str = DEFAULT_REPO):
        self.root = Path(root)
        self.pkg = self.root / "pymablock"
        self.trees: dict[str, ast.Module] = {}
        self.sources: dict[str, str] = {}
        if not self.pkg.is_dir():
            raise AnalysisError("loader", f"package directory {self.pkg} not found")
        for name in MODULES:
            path = self.pkg / f"{name}.py"
            if not path.exists():
                raise AnalysisError("loader", f"module {path} not found")
            src = path.read_text()
            self.sources[name] = src
            try:
                tree = ast.parse(src, filename=str(path))
            except SyntaxError as e:  # a variant that does not compile is not our business
                raise AnalysisError("loader", f"{path} does not parse: {e}")
            for node in ast.walk(tree):
                for child in ast.iter_child_nodes(node):
                    child._parent = node  # type: ignore[attr-defined]
            _canonical_index_parameter(tree)
            self.trees[name] = tree
        # every other .py in the package (not tests) is parsed too so that
        # who-may-write rules see the whole package
        self.extra: dict[str, ast.Module] = {}
        for path in sorted(self.pkg.glob("*.py")):
            if path.stem in MODULES or path.stem.startswith("_version"):
                continue
            try:
                tree = ast.parse(path.read_text(), filename=str(path))
            except SyntaxError as e:
                raise AnalysisError("loader", f"{path} does not parse: {e}")
            for node in ast.walk(tree):
                for child in ast.iter_child_nodes(node):
                    child._parent = node  # type: ignore[attr-defined]
            self.extra[path.stem] = tree

    # -- addressing ---------------------------------------------------------
    def all_trees(self) -> dict[str, ast.Module]:
        return {**self.trees, **self.extra}

    def path(self, module: str) -> str:
        return str(self.pkg / f"{module}.py")

    def rel(self, module: str) -> str:
        return f"pymablock/{module}.py"

    def digest(self) -> str:
        h = hashlib.sha256()
        for name in MODULES:
            h.update(self.sources[name].encode())
        return h.hexdigest()[:16]

    def find_all(self, qual: str) -> list[ast.AST]:
        """All defs matching ``module::a::b`` (a.b nested defs/classes)."""
        module, *parts = qual.split("::")
        if module not in self.trees:
            raise AnalysisError("anchor", f"unknown module {module}")
        nodes: list[ast.AST] = [self.trees[module]]
        for part in parts:
            nxt: list[ast.AST] = []
            for n in nodes:
                nxt.extend(_defs_named(n, part))
            nodes = nxt
        return nodes

    def find(self, qual: str, rule: str = "anchor") -> ast.AST:
        nodes = self.find_all(qual)
        if len(nodes) != 1:
            raise AnalysisError(
                rule, f"anchor {qual!r}: expected exactly 1 definition, found {len(nodes)}"
            )
        return nodes[0]

    def loc(self, module: str, node: ast.AST | None) -> str:
        line = getattr(node, "lineno", 0) if node is not None else 0
        return f"{self.rel(module)}:{line}"


def _defs_named(scope: ast.AST, name: str) -> list[ast.AST]:
    """Definitions called ``name`` directly inside ``scope`` (not in nested defs)."""
    out = []
    stack = list(ast.iter_child_nodes(scope))
    while stack:
        n = stack.pop(0)
        if isinstance(n, (ast.FunctionDef, ast.AsyncFunctionDef, ast.ClassDef)):
            if n.name == name:
                out.append(n)
            continue  # do not descend into other defs
        if isinstance(n, ast.Lambda):
            continue
        stack[0:0] = list(ast.iter_child_nodes(n))
    out.sort(key=lambda n: n.lineno)
    return out


def own_nodes(func: ast.AST) -> Iterable[ast.AST]:
    """Pre-order walk (source order) of a function body without entering nested
    defs / lambdas / classes (the nested def node itself is yielded)."""
    for child in ast.iter_child_nodes(func):
        yield child
        if isinstance(child, (ast.FunctionDef, ast.AsyncFunctionDef, ast.ClassDef, ast.Lambda)):
            continue
        yield from own_nodes(child)


def nested_defs(func: ast.AST) -> list[ast.FunctionDef]:
    return [
        n for n in own_nodes(func) if isinstance(n, (ast.FunctionDef, ast.AsyncFunctionDef))
    ]


def norm(node: ast.AST | str) -> str:
    """Normalised statement/expression text used in construct keys (no line numbers)."""
    if isinstance(node, str):
        return re.sub(r"\s+", " ", node).strip()
    try:
        return re.sub(r"\s+", " ", ast.unparse(node)).strip()
    except Exception:  # pragma: no cover
        return type(node).__name__


def dotted(node: ast.AST) -> str | None:
    """``a.b.c`` for Name/Attribute chains, else None."""
    parts = []
    while isinstance(node, ast.Attribute):
        parts.append(node.attr)
        node = node.value
    if isinstance(node, ast.Name):
        parts.append(node.id)
        return ".".join(reversed(parts))
    return None


def call_name(node: ast.AST) -> str | None:
    if isinstance(node, ast.Call):
        return dotted(node.func)
    return None


# ---------------------------------------------------------------------------
# Report
# ---------------------------------------------------------------------------


@dataclass
class Instance:
    rule: str
    instance: str
    status: str  # ok | fail
    detail: str = ""
    key: str = ""
    where: str = ""
    extra: dict = field(default_factory=dict)


class Report:
    """Per-run collection of rule instances of one property."""

    def __init__(self, prop: str, tier: str, repo: Repo):
        self.prop = prop
        self.tier = tier
        self.repo = repo
        self.instances: list[Instance] = []
        self.analysed: dict[str, Any] = {}
        self.notes: list[str] = []
        self.t0 = time.time()

    def ok(self, rule: str, instance: str, detail: str = "", where: str = "", **extra):
        self.instances.append(Instance(rule, instance, "ok", detail, "", where, extra))

    def fail(self, rule: str, key: str, detail: str, where: str = "", **extra):
        """Record a violated rule instance.  ``key`` identifies the construct
        (qualified anchor + normalised residual / statement), never a line."""
        self.instances.append(Instance(rule, key, "fail", detail, key, where, extra))

    def check(self, cond: bool, rule: str, instance: str, detail: str = "", where: str = ""):
        if cond:
            self.ok(rule, instance, detail, where)
        else:
            self.fail(rule, instance, detail, where)
        return cond

    def count(self, what: str, n: Any):
        self.analysed[what] = n

    def note(self, text: str):
        self.notes.append(text)

    def floor(self, rule: str, what: str, found: int, minimum: int):
        """Vacuity guard: fewer instances than confirmed by hand => analysis broken."""
        if found < minimum:
            raise AnalysisError(
                rule, f"instance floor not met for {what}: found {found}, need >= {minimum}"
            )

    # -- results --------------------------------------------------------------
    def fails(self) -> list[Instance]:
        return [i for i in self.instances if i.status == "fail"]

    def rules(self) -> list[str]:
        seen = []
        for i in self.instances:
            if i.rule not in seen:
                seen.append(i.rule)
        return seen


# ---------------------------------------------------------------------------
# known findings
# ---------------------------------------------------------------------------


def load_known() -> list[dict]:
    if not KNOWN_FINDINGS.exists():
        return []
    data = json.loads(KNOWN_FINDINGS.read_text())
    return data.get("findings", [])


def known_match(prop: str, inst: Instance, known: list[dict]) -> dict | None:
    for k in known:
        if k.get("status") != "known":
            continue
        if prop not in k.get("properties", []):
            continue
        if k.get("rule") == inst.rule and k.get("key") == inst.key:
            return k
    return None
