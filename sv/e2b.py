"""E2 (second part) -- laziness / causality of the Python layers around the DSL.

E2.6   definition-time code subscripts a BlockSeries only at the zeroth order
E2.6b  hand-written eval closures load other series at their own orders (or lower)
E2.8   _check_finite is exhaustive over OneItem = int | slice | list[int]
E2.9   Taylor recurrence of _sympy_to_BlockSeries is consistent
"""

from __future__ import annotations

import ast

from .cfg import CFG
from .core import AnalysisError, Repo, Report, call_name, dotted, nested_defs, norm, own_nodes

SERIES_MAKERS = {
    "BlockSeries", "_unpack_blocks", "_to_scalar_BlockSeries", "operator_to_BlockSeries",
    "_dict_to_BlockSeries", "_sympy_to_BlockSeries", "cauchy_dot_product", "linear_operator_wrapped",
    "create_postprocessing_eval",
}
DEF_TIME_MODULES = ("block_diagonalization", "algorithm_parsing")


def _scopes(node: ast.AST):
    """Enclosing function defs, innermost first."""
    out = []
    p = getattr(node, "_parent", None)
    while p is not None:
        if isinstance(p, (ast.FunctionDef, ast.Lambda)):
            out.append(p)
        p = getattr(p, "_parent", None)
    return out


def _params(func) -> dict[str, ast.arg]:
    a = func.args
    out = {x.arg: x for x in [*a.posonlyargs, *a.args, *a.kwonlyargs]}
    if a.vararg:
        out[a.vararg.arg] = a.vararg
    return out


def _assignments(func, name: str):
    body = [func.body] if isinstance(func, ast.Lambda) else func.body
    out = []
    for n in own_nodes(func) if not isinstance(func, ast.Lambda) else ast.walk(func.body):
        if isinstance(n, ast.Assign):
            for t in n.targets:
                if isinstance(t, ast.Name) and t.id == name:
                    out.append(n.value)
        elif isinstance(n, ast.AnnAssign) and isinstance(n.target, ast.Name) and n.target.id == name and n.value:
            out.append(n.value)
        elif isinstance(n, ast.NamedExpr) and n.target.id == name:
            out.append(n.value)
    return out


def _comprehension_binding(name_node: ast.Name):
    """If the name is bound by an enclosing comprehension / for loop, return (target, iter)."""
    name = name_node.id
    p = getattr(name_node, "_parent", None)
    child = name_node
    while p is not None and not isinstance(p, (ast.FunctionDef, ast.Lambda)):
        gens = getattr(p, "generators", None)
        if gens:
            for g in gens:
                if name in [x.id for x in ast.walk(g.target) if isinstance(x, ast.Name)]:
                    return g.target, g.iter
        if isinstance(p, ast.For) and child is not p.iter:
            if name in [x.id for x in ast.walk(p.target) if isinstance(x, ast.Name)]:
                return p.target, p.iter
        child, p = p, getattr(p, "_parent", None)
    return None


def series_typed(name_node: ast.Name, depth=0) -> bool:
    """Is this Name bound (in its scope chain) to a BlockSeries?"""
    if depth > 4:
        return False
    name = name_node.id
    cb = _comprehension_binding(name_node)
    if cb is not None:
        tgt, it = cb
        names = [x.id for x in ast.walk(tgt) if isinstance(x, ast.Name)]
        if isinstance(it, ast.Call) and isinstance(it.func, ast.Attribute) and isinstance(it.func.value, ast.Name) \
                and it.func.value.id in ("series", "linear_operator_series"):
            if it.func.attr == "items" and isinstance(tgt, ast.Tuple) and names.index(name) == 1:
                return True
            if it.func.attr == "values":
                return True
        return False
    for sc in _scopes(name_node):
        vals = _assignments(sc, name)
        for v in vals:
            if isinstance(v, ast.Call) and (call_name(v) or "").split(".")[-1] in SERIES_MAKERS:
                return True
            if isinstance(v, ast.Name) and v.id != name and series_typed(v, depth + 1):
                return True
        ps = _params(sc)
        if name in ps:
            ann = ps[name].annotation
            if ann is not None:
                t = norm(ann)
                return t in ("BlockSeries", "BlockSeries | None")
            return name in ("block_series", "original")
        if vals:
            return False
    return False


def _resolve_name(n: ast.Name):
    for sc in _scopes(n):
        if n.id in _params(sc):
            return None
        vals = _assignments(sc, n.id)
        if len(vals) == 1:
            return vals[0]
        if vals:
            return None
    return None


def _element_of(n: ast.Name):
    """A name bound by `for n in X` / a comprehension over X, where X (resolved) is a comprehension or display whose elements all
    have one form -> that element expression."""
    p, child = getattr(n, "_parent", None), n
    while p is not None:
        gens = []
        if isinstance(p, (ast.ListComp, ast.SetComp, ast.GeneratorExp, ast.DictComp)):
            gens = [(g.target, g.iter) for g in p.generators]
        elif isinstance(p, ast.For) and child is not p.iter:
            gens = [(p.target, p.iter)]
        for tgt, it in gens:
            if isinstance(tgt, ast.Name) and tgt.id == n.id:
                src = it
                if isinstance(src, ast.Name):
                    src = _resolve_name(src)
                while isinstance(src, ast.Call) and call_name(src) in ("list", "tuple") and len(src.args) == 1:
                    src = src.args[0]
                if isinstance(src, (ast.ListComp, ast.GeneratorExp)):
                    return src.elt
                if isinstance(src, ast.Call) and call_name(src) in ("np.eye", "np.identity", "numpy.eye", "numpy.identity") and src.args:
                    # the rows of an identity matrix are the unit orders: every one of them is a non-zero order
                    return ast.BinOp(left=ast.Tuple(elts=[ast.Constant(value=1)], ctx=ast.Load()), op=ast.Mult(), right=src.args[0])
                if isinstance(src, (ast.List, ast.Tuple)) and src.elts and len({norm(e) for e in src.elts}) == 1:
                    return src.elts[0]
                return None
        if isinstance(p, (ast.FunctionDef, ast.Lambda)):
            return None
        p, child = getattr(p, "_parent", None), p
    return None


def _argument_of(n: ast.Name):
    """A parameter of a module-level function all of whose call sites (in its module) pass the same expression -> that expression."""
    from .sem import bind_args
    f = _enclosing_def(n)
    if f is None or n.id not in [a.arg for a in f.args.args + f.args.kwonlyargs]:
        return None
    mod = f
    while getattr(mod, "_parent", None) is not None:
        mod = mod._parent
    if getattr(f, "_parent", None) is not mod:
        return None
    vals = []
    for c in ast.walk(mod):
        if isinstance(c, ast.Call) and call_name(c) == f.name:
            b = bind_args(f, c)
            if b is None or n.id not in b:
                return None
            vals.append(b[n.id])
    if not vals or len({norm(v) for v in vals}) != 1:
        return None
    return vals[0]


def segments(expr: ast.AST, index_name: str | None, depth=0) -> list[tuple]:
    """Flatten an index expression into segments:
    ('scalar', text) ('zero',) ('idx', which) ('lower',) ('other', text)"""
    if depth > 6:
        return [("other", norm(expr))]
    if isinstance(expr, ast.Tuple) and _tuple_decrement(expr, index_name) is not None:
        return [("lower",)]
    if isinstance(expr, ast.Tuple):
        out = []
        for e in expr.elts:
            if isinstance(e, ast.Starred):
                out += segments(e.value, index_name, depth + 1)
            else:
                out.append(("scalar", norm(e)))
        return out
    if isinstance(expr, ast.BinOp) and isinstance(expr.op, ast.Add):
        return segments(expr.left, index_name, depth + 1) + segments(expr.right, index_name, depth + 1)
    if isinstance(expr, ast.BinOp) and isinstance(expr.op, ast.Mult):
        l, r = expr.left, expr.right
        for a, b in ((l, r), (r, l)):
            if isinstance(a, ast.Tuple) and len(a.elts) == 1 and isinstance(a.elts[0], ast.Constant) and a.elts[0].value == 0:
                return [("zero",)]
            if isinstance(a, ast.Tuple) and len(a.elts) == 1 and isinstance(a.elts[0], ast.Constant) and isinstance(a.elts[0].value, int):
                return [("nonzero", norm(expr))]
        return [("other", norm(expr))]
    if isinstance(expr, ast.Call) and call_name(expr) == "map" and len(expr.args) == 2 and norm(expr.args[0]) in ("int", "np.int64", "operator.index"):
        return segments(expr.args[1], index_name, depth + 1)  # an element-wise conversion keeps which orders are addressed
    if isinstance(expr, ast.Call) and call_name(expr) == "tuple" and len(expr.args) == 1:
        inner = expr.args[0]
        if isinstance(inner, ast.Name):
            r = _resolve_name(inner)
            if isinstance(r, ast.Call) and call_name(r) == "list" and len(r.args) == 1 and norm(r.args[0]) == index_name:
                return [("lower",)]
        return segments(inner, index_name, depth + 1)
    if isinstance(expr, ast.Name):
        if expr.id == index_name:
            return [("idx", "all")]
        r = _resolve_name(expr)
        if r is not None:
            return segments(r, index_name, depth + 1)
        r = _element_of(expr) or _argument_of(expr)
        if r is not None:
            return segments(r, index_name, depth + 1)
        return [("other", expr.id)]
    if isinstance(expr, ast.Subscript) and isinstance(expr.value, ast.Name) and expr.value.id == index_name:
        s = expr.slice
        if isinstance(s, ast.Slice):
            lo = norm(s.lower) if s.lower else ""
            hi = norm(s.upper) if s.upper else ""
            if s.step is None:
                if hi == "" and lo == "2":
                    return [("idx", "2:")]
                if lo == "" and hi == "2":
                    return [("idx", ":2")]
                if hi == "" and lo.startswith("-") and "n_infinite" in lo:
                    return [("idx", "orders")]
                if lo == "" and hi.startswith("-") and "n_infinite" in hi:
                    return [("idx", "finite")]
        if isinstance(s, ast.Constant):
            return [("scalar", norm(expr))]
    if isinstance(expr, ast.Constant) and isinstance(expr.value, int):
        return [("scalar", norm(expr))]
    return [("other", norm(expr))]


def order_part(segs: list[tuple]) -> str:
    """zero | same | lower | none | unknown: classification of the order (infinite) part."""
    tail = [s for s in segs if s[0] != "scalar"]
    if not tail:
        return "none"
    kinds = {s[0] for s in tail}
    if kinds == {"zero"}:
        return "zero"
    # `(0,) * n_infinite` as the last segment fixes the whole infinite part (the total length is
    # checked by BlockSeries._check_number_perturbations), whatever names the block part
    if tail[-1] == ("zero",) and all(s[0] == "other" for s in tail[:-1]):
        return "zero"
    if kinds == {"lower"}:
        return "lower"
    if [s[0] for s in tail] == ["other", "idx"] and tail[0][1] == "item" and tail[1][1] == "all":
        return "same"  # BlockSeries.__getitem__ views: `item` is the finite part (len(item) == len(shape))
    if kinds <= {"idx"}:
        which = [s[1] for s in tail]
        if which in (["all"], ["2:"], ["orders"], [":2", "2:"], ["finite", "orders"]):
            return "same"
        if which == [":2"] or which == ["finite"]:
            return "none"
    return "unknown"


def _eval_closures(repo: Repo):
    """(module, qualname, func, index_name): functions/lambdas handed to BlockSeries as eval."""
    out = []
    for mod in ("series", "block_diagonalization", "algorithm_parsing"):
        tree = repo.trees[mod]
        names_as_eval = set()
        # helpers that hand one of their parameters to BlockSeries as eval: a call of the helper is a construction site too
        forwarders = {}
        for g in tree.body:
            if isinstance(g, ast.FunctionDef):
                gp = {a.arg for a in g.args.args}
                for n in ast.walk(g):
                    if isinstance(n, ast.Call) and (call_name(n) or "").endswith("BlockSeries"):
                        for k in n.keywords:
                            if k.arg == "eval" and isinstance(k.value, ast.Name) and k.value.id in gp:
                                forwarders[g.name] = (g, k.value.id)
        for n in ast.walk(tree):
            evs = []
            if isinstance(n, ast.Call) and call_name(n) not in forwarders and (call_name(n) or "").endswith("BlockSeries"):
                evs = [k.value for k in n.keywords if k.arg == "eval"]
            elif isinstance(n, ast.Call) and call_name(n) in forwarders:
                from .sem import bind_args
                g, pname = forwarders[call_name(n)]
                b = bind_args(g, n)
                if b is None:
                    raise AnalysisError("E2", f"{mod}: call of `{g.name}` (forwards `{pname}` to BlockSeries as eval) cannot be bound")
                evs = [b[pname]]
            if evs:
                for v in evs:
                    if True:
                        if isinstance(v, ast.Lambda):
                            out.append((mod, f"lambda@{_enclosing_name(v)}", v))
                        elif isinstance(v, ast.Name):
                            names_as_eval.add((v.id, _enclosing_def(n)))
            if isinstance(n, ast.Assign) and any(isinstance(t, ast.Attribute) and t.attr == "eval" for t in n.targets):
                if isinstance(n.value, ast.Name):
                    names_as_eval.add((n.value.id, _enclosing_def(n)))
        for name, encl in names_as_eval:
            if encl is None:
                continue
            for d in nested_defs(encl):
                if d.name == name:
                    out.append((mod, f"{encl.name}::{d.name}", d))
    seen, uniq = set(), []
    for mod, q, f in out:
        if id(f) not in seen:
            seen.add(id(f))
            uniq.append((mod, q, f))
    return uniq


def _enclosing_def(n):
    p = getattr(n, "_parent", None)
    while p is not None and not isinstance(p, ast.FunctionDef):
        p = getattr(p, "_parent", None)
    return p


def _enclosing_name(n):
    d = _enclosing_def(n)
    return d.name if d is not None else "<module>"


def rule_definition_time_lazy(rep: Report, repo: Repo):
    R = "E2.lazy"
    n = 0
    for mod in DEF_TIME_MODULES:
        for top in repo.trees[mod].body:
            if not isinstance(top, ast.FunctionDef):
                continue
            for node in own_nodes(top):
                if isinstance(node, ast.Subscript) and isinstance(node.ctx, ast.Load) and isinstance(node.value, ast.Name):
                    if not series_typed(node.value):
                        continue
                    segs = segments(node.slice, None)
                    cls = order_part(segs)
                    n += 1
                    inst = f"{mod}::{top.name} `{norm(node)[:70]}`"
                    if cls == "unknown" and any(s_[0] == "other" for s_ in segs) and not any(s_[0] == "nonzero" for s_ in segs):
                        # the index is built from something the rule cannot follow: nothing is known about the order it reads
                        raise AnalysisError(R, f"{inst}: the index `{norm(node.slice)[:60]}` is not resolved ({segs})")
                    rep.check(cls == "zero", R, inst + " reads only the zeroth order at definition time",
                              f"order part classified {cls!r} from {segs}", repo.loc(mod, node))
    rep.floor(R, "definition-time subscripts of a BlockSeries", n, 8)
    rep.count("E2.lazy.sites", n)


def rule_order_preserving_evals(rep: Report, repo: Repo):
    R = "E2.causal_evals"
    closures = _eval_closures(repo)
    rep.floor(R, "hand-written eval closures", len(closures), 10)
    n_loads = 0
    for mod, q, f in closures:
        index_name = f.args.vararg.arg if f.args.vararg else None
        if index_name is None:
            if isinstance(f, ast.Lambda) and not f.args.args:
                continue
            raise AnalysisError(R, f"{mod}::{q}: eval without *index vararg")
        nodes = ast.walk(f.body) if isinstance(f, ast.Lambda) else own_nodes(f)
        for node in nodes:
            if isinstance(node, ast.Subscript) and isinstance(node.ctx, ast.Load):
                base = node.value
                is_series = (isinstance(base, ast.Name) and (series_typed(base) or base.id in ("self", "packed", "op", "product")))
                if not is_series:
                    continue
                from .sem import Scope as _Scope, inline as _inline
                sl = node.slice
                sc_ = _Scope(repo.trees[mod], f if isinstance(f, ast.FunctionDef) else None)
                if any(isinstance(c, ast.Call) and isinstance(c.func, ast.Name) and sc_.get(c.func.id) is not None for c in ast.walk(sl)):
                    sl = _inline(sl, sc_)  # index helpers are expanded
                segs = segments(sl, index_name)
                cls = order_part(segs)
                n_loads += 1
                ok = cls in ("same", "lower")
                if cls == "lower":
                    ok = _derivative_guard(f, index_name)
                if cls == "unknown" and any(s_[0] == "other" for s_ in segs) and not any(s_[0] in ("nonzero",) for s_ in segs):
                    # built from something the rule cannot follow: nothing is known about the orders it reads
                    raise AnalysisError(R, f"{mod}::{q} `{norm(node)[:60]}`: the index is not resolved ({segs})")
                rep.check(ok, R, f"{mod}::{q} `{norm(node)[:70]}` loads at the requested orders",
                          f"order part classified {cls!r} from {segs}", repo.loc(mod, node))
    # helpers called from an eval closure run at evaluation time too: a series element they read is read by the request.
    # They have no access to the requested index unless it is passed, so any series load in a parameterless sibling helper is at an
    # index that does not depend on the request: only a zeroth-order element (or a finite-part view) is inside every cone.
    seen_h = set()
    for mod, q, f in closures:
        if isinstance(f, ast.Lambda):
            continue
        encl = getattr(f, "_parent", None)
        while encl is not None and not isinstance(encl, ast.FunctionDef):
            encl = getattr(encl, "_parent", None)
        if encl is None:
            continue
        sib = {d.name: d for d in nested_defs(encl) if d is not f and getattr(d, "_parent", None) is encl}
        for c in own_nodes(f):
            if isinstance(c, ast.Call) and isinstance(c.func, ast.Name) and c.func.id in sib and id(sib[c.func.id]) not in seen_h:
                h = sib[c.func.id]
                if any(isinstance(d2, ast.FunctionDef) and d2 is h for _m2, _q2, d2 in closures):
                    continue
                seen_h.add(id(h))
                passes_index = any(isinstance(x, ast.Name) and x.id == (f.args.vararg.arg if f.args.vararg else None)
                                   for a_ in [*c.args, *[k.value for k in c.keywords]] for x in ast.walk(a_))
                for node in ast.walk(h):
                    if isinstance(node, ast.Subscript) and isinstance(node.ctx, ast.Load) and isinstance(node.value, ast.Name) \
                            and series_typed(node.value):
                        if passes_index or h.args.args or h.args.vararg:
                            raise AnalysisError(R, f"{mod}::{q} calls helper `{h.name}` that reads `{norm(node)[:50]}` with arguments; not followed")
                        cls = order_part(segments(node.slice, None))
                        n_loads += 1
                        inst = f"{mod}::{q} -> {h.name}() `{norm(node)[:70]}` is read at evaluation time at an index that does not depend on the request"
                        if cls in ("zero", "none"):
                            rep.ok(R, inst + " (zeroth order: inside every cone)", "", repo.loc(mod, node))
                        else:
                            rep.fail(R, f"{mod}::{q} calls `{h.name}()`, which reads `{norm(node)[:70]}` whatever order was requested",
                                     f"order part classified {cls!r}: an element that is not the zeroth order is evaluated by requests whose own "
                                     "orders do not dominate it (and the result may depend on it)", repo.loc(mod, node))
    rep.floor(R, "series loads inside eval closures", n_loads, 10)
    rep.count("E2.causal_evals.closures", [q for _m, q, _f in closures])


def _tuple_decrement(expr, index_name):
    """(*index[:K], index[K] - 1, *index[K + 1:]) -> text of K, else None."""
    if not (isinstance(expr, ast.Tuple) and len(expr.elts) == 3 and isinstance(expr.elts[0], ast.Starred)
            and isinstance(expr.elts[2], ast.Starred)):
        return None
    a, m, c = expr.elts[0].value, expr.elts[1], expr.elts[2].value
    if not (isinstance(m, ast.BinOp) and isinstance(m.op, ast.Sub) and norm(m.right) == "1"):
        return None
    if isinstance(m.left, ast.Subscript) and norm(m.left.value) == index_name:
        k = norm(m.left.slice)
        if norm(a) == f"{index_name}[:{k}]" and norm(c) in (f"{index_name}[{k} + 1:]", f"{index_name}[1 + {k}:]"):
            return k
    if isinstance(m.left, ast.Name) and isinstance(a, ast.Subscript) and norm(a.value) == index_name and isinstance(a.slice, ast.Slice) \
            and a.slice.lower is None and a.slice.upper is not None:
        # (*index[:K], ORDER - 1, *index[K + 1:]) with ORDER the name the selection binds to index[K] (checked by the caller)
        k = norm(a.slice.upper)
        if norm(c) in (f"{index_name}[{k} + 1:]", f"{index_name}[1 + {k}:]"):
            return (k, m.left.id)
    return None


def _derivative_selection(f, index_name):
    """-> (axis_text, order_text) if the closure picks a component k with index[k] != 0 and lowers exactly that
    component of the index by one; else None.  Accepted selections (local names are free):
        k, n = next((i, n) for i, n in enumerate(index) if n)        order = n
        k = next(i for i, n in enumerate(index) if n)                 order = index[k]
    accepted decrements:
        p = list(index); p[k] -= 1; ... tuple(p)
        p = (*index[:k], index[k] - 1, *index[k + 1:])"""
    k = None
    dec = [n for n in own_nodes(f) if isinstance(n, ast.AugAssign) and isinstance(n.op, ast.Sub)
           and isinstance(n.value, ast.Constant) and n.value.value == 1 and isinstance(n.target, ast.Subscript)]
    if len(dec) == 1:
        lst = norm(dec[0].target.value)
        copies = [n for n in own_nodes(f) if isinstance(n, ast.Assign) and norm(n.targets[0]) == lst]
        if len(copies) == 1 and norm(copies[0].value) == f"list({index_name})":
            k = norm(dec[0].target.slice)
    elif not dec:
        ks = {_tuple_decrement(n, index_name) for n in own_nodes(f) if isinstance(n, ast.Tuple)} - {None}
        if len(ks) == 1:
            k = next(iter(ks))
    if k is None:
        return None
    order_alias = None
    if isinstance(k, tuple):
        k, order_alias = k
    for n in own_nodes(f):
        if isinstance(n, ast.Assign) and isinstance(n.value, ast.Call) and call_name(n.value) == "next" and n.value.args:
            g = n.value.args[0]
            if not (isinstance(g, ast.GeneratorExp) and len(g.generators) == 1):
                continue
            gen = g.generators[0]
            if norm(gen.iter) != f"enumerate({index_name})" or not isinstance(gen.target, ast.Tuple):
                continue
            i, v = (norm(e) for e in gen.target.elts)
            if not (len(gen.ifs) == 1 and norm(gen.ifs[0]) in (v, f"{v} > 0", f"{v} != 0")):
                continue
            if isinstance(n.targets[0], ast.Tuple) and norm(g.elt) == f"({i}, {v})":
                names = [norm(e) for e in n.targets[0].elts]
                if names[0] == k and order_alias in (None, names[1]):
                    return k, names[1]
            if isinstance(n.targets[0], ast.Name) and norm(g.elt) == i and n.targets[0].id == k and order_alias is None:
                return k, f"{index_name}[{k}]"
    return None


def _derivative_guard(f, index_name) -> bool:
    return _derivative_selection(f, index_name) is not None


# ---------------------------------------------------------------------------
# E2.9 Taylor recurrence
# ---------------------------------------------------------------------------


def derivative_series_name(f: ast.FunctionDef, rule: str) -> str:
    """The local that holds the series of Taylor derivatives: the one whose `.eval` is set to `derivative_eval`."""
    hits = [n for n in own_nodes(f) if isinstance(n, ast.Assign) and isinstance(n.targets[0], ast.Attribute) and n.targets[0].attr == "eval"
            and isinstance(n.targets[0].value, ast.Name) and norm(n.value) == "derivative_eval"]
    if len(hits) != 1:
        raise AnalysisError(rule, "_sympy_to_BlockSeries: the series whose eval is derivative_eval was not found")
    return hits[0].targets[0].value.id


def rule_taylor(rep: Report, repo: Repo):
    R = "E2.taylor"
    f = repo.find("block_diagonalization::_sympy_to_BlockSeries", R)
    loc = lambda n: repo.loc("block_diagonalization", n)
    d = [x for x in nested_defs(f) if x.name == "derivative_eval"]
    o = [x for x in nested_defs(f) if x.name == "op_eval"]
    if len(d) != 1 or len(o) != 1:
        raise AnalysisError(R, "derivative_eval / op_eval not found")
    d, o = d[0], o[0]
    DER = derivative_series_name(f, R)
    idx = d.args.vararg.arg
    # (axis, order) selection, decrement, differentiation and divisor refer to the same pair
    sel = _derivative_selection(d, idx)
    ok = sel is not None
    rep.check(ok, R, "_sympy_to_BlockSeries::derivative_eval selects a non-zero component and decrements it",
              "previous index = index with the chosen component lowered by one", loc(d))
    if ok:
        axis, order = sel
        ret = [n for n in own_nodes(d) if isinstance(n, ast.Return)]
        good = False
        # single-use value locals (e.g. `lower = operator_derivatives[previous_index]`) are inlined; the selection
        # names (axis, order) and the index copy keep their names
        from .resolve import resolved, run_block
        keep = {axis, order}
        env = run_block([s_ for s_ in d.body if isinstance(s_, ast.Assign) and isinstance(s_.targets[0], ast.Name)
                         and s_.targets[0].id not in keep and not isinstance(s_.value, ast.Tuple)
                         and not any(isinstance(x, ast.Call) and call_name(x) in ("next", "list") for x in ast.walk(s_.value))])
        rv = resolved(ret[0].value, env) if len(ret) == 1 else None
        if rv is not None and isinstance(rv, ast.BinOp) and isinstance(rv.op, ast.Div):
            num, den = rv.left, rv.right
            good = (norm(den) == order and isinstance(num, ast.Call) and isinstance(num.func, ast.Attribute)
                    and num.func.attr == "diff" and len(num.args) == 1 and norm(num.args[0]) == f"symbols[{axis}]"
                    and isinstance(num.func.value, ast.Subscript) and norm(num.func.value.value) == DER)
        inst = "_sympy_to_BlockSeries::derivative_eval element n = d/d(symbol_k) of element n-e_k, divided by n_k"
        if good:
            rep.ok(R, inst, f"`{norm(ret[0])}`; axis={axis}, order={order}", loc(d))
        else:
            rep.fail(R, f"_sympy_to_BlockSeries::derivative_eval returns `{norm(ret[0].value) if ret else ''}`",
                     f"the Taylor coefficient needs d/d(symbols[{axis}]) of the previous element divided by the order along that same axis "
                     f"({order}), so that element n carries 1/(n_1! n_2! ...)", loc(d))
    # op_eval: substitution to 0 and monomial are paired position-wise with `symbols`
    oi = o.args.vararg.arg
    subs = [n for n in own_nodes(o) if isinstance(n, ast.Call) and isinstance(n.func, ast.Attribute) and n.func.attr == "subs"]
    def zero_map(e):
        if isinstance(e, ast.DictComp):
            return norm(e.value) == "0" and norm(e.generators[0].iter) == "symbols" and norm(e.key) == norm(e.generators[0].target) \
                and not e.generators[0].ifs
        return isinstance(e, ast.Call) and call_name(e) == "dict.fromkeys" and [norm(a_) for a_ in e.args] == ["symbols", "0"]
    if len(subs) != 1 or len(subs[0].args) != 1:
        raise AnalysisError(R, "op_eval: substitution of the symbols not found")
    ok = norm(subs[0].func.value) == f"{DER}[{oi}]" and zero_map(subs[0].args[0])
    rep.check(ok, R, "_sympy_to_BlockSeries::op_eval evaluates the derivative at symbols = 0",
              norm(subs[0]) if subs else "missing", loc(o))
    # the factors of the monomial, as (target, iterable, element): a comprehension, or a list filled by an appending loop
    from .sem import list_built_by_loop as _lbl
    cands = [(m.generators[0].target, m.generators[0].iter, m.elt) for m in own_nodes(o)
             if isinstance(m, (ast.ListComp, ast.GeneratorExp)) and len(m.generators) == 1 and not m.generators[0].ifs
             and isinstance(m.elt, ast.BinOp) and isinstance(m.elt.op, ast.Pow)]
    for acc_ in {norm(c.func.value) for c in own_nodes(o) if isinstance(c, ast.Call) and isinstance(c.func, ast.Attribute) and c.func.attr == "append"}:
        built = _lbl(o.body, acc_)
        if built is not None and len(built[2]) == 1 and not built[2][0][0] and isinstance(built[2][0][1], ast.BinOp) and isinstance(built[2][0][1].op, ast.Pow):
            cands.append((built[0], built[1], built[2][0][1]))
    # ... or a running product: `m = 1; for s, p in IT: m = m * s**p` (also `m *= s**p`)
    for lp_ in [x for x in own_nodes(o) if isinstance(x, ast.For) and not x.orelse and len(x.body) == 1]:
        st_ = lp_.body[0]
        pw_ = None
        if isinstance(st_, ast.AugAssign) and isinstance(st_.op, ast.Mult) and isinstance(st_.target, ast.Name) and isinstance(st_.value, ast.BinOp) \
                and isinstance(st_.value.op, ast.Pow):
            pw_ = st_.value
        elif isinstance(st_, ast.Assign) and len(st_.targets) == 1 and isinstance(st_.targets[0], ast.Name) and isinstance(st_.value, ast.BinOp) \
                and isinstance(st_.value.op, ast.Mult):
            l_, r_ = st_.value.left, st_.value.right
            for acc_, fac_ in ((l_, r_), (r_, l_)):
                if norm(acc_) == st_.targets[0].id and isinstance(fac_, ast.BinOp) and isinstance(fac_.op, ast.Pow):
                    pw_ = fac_
        if pw_ is not None:
            cands.append((lp_.target, lp_.iter, pw_))
    if len(cands) != 1:
        raise AnalysisError(R, f"op_eval: the factors symbol**order of the monomial were not found as one comprehension / one appending loop ({len(cands)} candidates)")
    tgt_, it_, elt_ = cands[0]
    if not (isinstance(it_, ast.Call) and call_name(it_) == "zip" and len(it_.args) == 2 and isinstance(tgt_, ast.Tuple) and len(tgt_.elts) == 2):
        raise AnalysisError(R, f"op_eval: the monomial iterates `{norm(it_)[:60]}`: not understood")
    s_, p_ = (norm(e) for e in tgt_.elts)
    ok = [norm(a) for a in it_.args] == ["symbols", oi] and norm(elt_.left) == s_ and norm(elt_.right) == p_
    rep.check(ok, R, "_sympy_to_BlockSeries::op_eval multiplies back the monomial prod symbols[k]**index[k]",
              "position-wise pairing of symbols and orders", loc(o))
    # every order is answered from the derivative: no path of op_eval may declare a coefficient absent without computing it
    from .sem import Scope as _Sc, outcomes as _oc
    shortcuts, n_ret = [], 0
    for oc in _oc(o.body, _Sc(repo.trees["block_diagonalization"], o), env={}, expand=False):
        if oc.kind == "raise":
            continue
        if oc.kind != "return" or oc.value is None:
            raise AnalysisError(R, "op_eval: path without a returned value")
        n_ret += 1
        reads = any(isinstance(n_, ast.Subscript) and norm(n_.value) == DER and norm(n_.slice) == oi for n_ in ast.walk(oc.value))
        if reads:
            continue
        if norm(oc.value) == "zero":
            # a shortcut is sound if it is taken only beyond the TOTAL degree of a polynomial operator; the degree in one symbol
            # (sympy: Poly.degree() without a generator is the degree in the first one) is not a bound on sum(index)
            verdict = None
            for t_, p_ in oc.conds:
                from .sem import canon as _cn
                for a_ in ast.walk(_cn(t_)):
                    if isinstance(a_, ast.Compare) and len(a_.ops) == 1 and isinstance(a_.ops[0], ast.Lt) and norm(a_.comparators[0]) == f"sum({oi})" \
                            and isinstance(a_.left, ast.Name) and p_:
                        vals = [x.value for x in ast.walk(f) if isinstance(x, ast.Assign) and norm(x.targets[0]) == a_.left.id
                                and not (isinstance(x.value, ast.Constant) and x.value.value is None)]
                        kinds = set()
                        for v_ in vals:
                            calls = [c_ for c_ in ast.walk(v_) if isinstance(c_, ast.Call) and isinstance(c_.func, ast.Attribute)
                                     and c_.func.attr in ("degree", "total_degree") and isinstance(c_.func.value, ast.Call)
                                     and (call_name(c_.func.value) or "").endswith("Poly")]
                            if len(calls) != 1:
                                kinds.add("?")
                            elif calls[0].func.attr == "total_degree":
                                kinds.add("total")
                            elif not calls[0].args and not calls[0].keywords:
                                kinds.add("first-symbol")
                            else:
                                kinds.add("?")
                        if kinds == {"total"}:
                            verdict = True
                        elif kinds == {"first-symbol"}:
                            verdict = False
            cond_txt = "; ".join(("" if p_ else "not ") + norm(t_)[:60] for t_, p_ in oc.conds) or "unconditionally"
            if verdict is None:
                raise AnalysisError(R, f"op_eval returns `zero` without computing the coefficient when `{cond_txt}`: whether that bound is sound is not understood")
            if verdict is False:
                shortcuts.append(cond_txt + " (the bound is Poly.degree(): the degree in the first symbol only, not the total degree)")
        else:
            raise AnalysisError(R, f"op_eval returns `{norm(oc.value)[:70]}` on a path that does not read the derivative series")
    rep.check(n_ret > 0 and not shortcuts, R, "_sympy_to_BlockSeries::op_eval answers every order from the derivative series (zero only if the computed coefficient vanishes)",
              ("returns `zero` without computing the coefficient when: " + " | ".join(shortcuts)) if shortcuts else "", loc(o))
    # dimension names = the same `symbols` sequence
    ctors = [n for n in own_nodes(f) if isinstance(n, ast.Call) and call_name(n) == "BlockSeries"]
    from .resolve import env_at as _ea_c, rtext as _rt_c
    def _kw(c_):
        e_ = {k_: v_ for k_, v_ in _ea_c(c_, f).items() if k_ != "symbols"}
        return {k.arg: _rt_c(k.value, e_) for k in c_.keywords}
    ok = bool(ctors) and all(_kw(c).get("dimension_names") == "symbols" and _kw(c).get("n_infinite") == "len(symbols)" for c in ctors)
    rep.check(ok, R, "_sympy_to_BlockSeries series carry dimension_names=symbols, n_infinite=len(symbols)", "", loc(f))


# ---------------------------------------------------------------------------
# C13 key normalisation
# ---------------------------------------------------------------------------


def rule_key_normalisation(rep: Report, repo: Repo):
    """List / symbolic-key inputs are relabelled to order tuples position-wise (decided on resolved expressions; the
    pairing may be a dict comprehension or a loop; local names are free)."""
    from .resolve import env_at, resolved, rtext, run_block
    R = "E2.keys"
    loc = lambda n: repo.loc("block_diagonalization", n)
    f = repo.find("block_diagonalization::_list_to_dict", R)
    if not f.args.args or f.args.args[0].arg != "operator":
        raise AnalysisError(R, "_list_to_dict signature")
    # pairing construct: (target, iter, key expr, value expr, node)
    pairings = []
    for n in own_nodes(f):
        if isinstance(n, ast.DictComp) and len(n.generators) == 1:
            pairings.append((n.generators[0].target, n.generators[0].iter, n.key, n.value, n))
        if isinstance(n, ast.For) and len(n.body) == 1 and isinstance(n.body[0], ast.Assign) and isinstance(n.body[0].targets[0], ast.Subscript):
            pairings.append((n.target, n.iter, n.body[0].targets[0].slice, n.body[0].value, n))
    pairings = [p_ for p_ in pairings if isinstance(p_[1], ast.Call) and call_name(p_[1]) == "zip"]
    if len(pairings) != 1:
        raise AnalysisError(R, f"_list_to_dict: pairing of perturbations with orders not recognised ({len(pairings)} zip constructs)")
    tgt, it, key, val, node = pairings[0]
    env = env_at(node, f)
    # the number of parameters: what the order tuples are as long as (the size of the identity the perturbations are zipped with)
    eyes = [x for x in ast.walk(resolved(it, env)) if isinstance(x, ast.Call) and call_name(x) in ("np.eye", "np.identity") and x.args]
    N = norm(eyes[0].args[0]) if eyes else "?"
    ok = False
    if len(it.args) == 2 and isinstance(tgt, ast.Tuple) and len(tgt.elts) == 2:
        a_, b_ = (resolved(x, env) for x in it.args)
        tn = [norm(e) for e in tgt.elts]
        from .sem import canon as _canon_k
        n_txt = norm(_canon_k(a_.args[0])) if isinstance(a_, ast.Call) and a_.args else ""
        eye = isinstance(a_, ast.Call) and call_name(a_) in ("np.eye", "np.identity") and n_txt in ("len(operator) - 1", "len(operator[1:])")
        whole = norm(b_) in ("operator[1:]",)
        if not whole and isinstance(b_, (ast.ListComp, ast.GeneratorExp)) and any(g_.ifs for g_ in b_.generators) \
                and any(norm(g_.iter) == "operator[1:]" for g_ in b_.generators):
            # understood and wrong: a FILTERED list of the perturbations is paired position by position with the unit orders, so every
            # perturbation after a dropped one moves to the previous parameter
            rep.fail(R, "_list_to_dict pairs the unit order tuples with a filtered list of the perturbations",
                     f"`{norm(b_)[:90]}`: dropping an entry shifts all later perturbations to earlier parameters", loc(node))
            whole = None
        elif not whole:
            raise AnalysisError(R, f"_list_to_dict: the perturbations zipped with the unit orders are `{norm(b_)[:70]}`, not operator[1:]")
        if whole is None:
            return
        ok = eye and whole and norm(key) == f"tuple({tn[0]})" and norm(val) == tn[1]
    rep.check(ok, R, "_list_to_dict maps the k-th perturbation to the k-th unit order tuple",
              f"pairs `{norm(tgt)}` from `{rtext(it, env)[:90]}`; key `{norm(key)}` -> `{norm(val)}`", loc(node))
    rep.check(N == "len(operator) - 1", R, "_list_to_dict: one parameter per listed perturbation", N, loc(f))
    z = [n for n in own_nodes(f) if isinstance(n, ast.Dict)]
    ok = False
    for d in z:
        for k, v in zip(d.keys, d.values):
            if k is not None and rtext(k, env_at(d, f)) in ("(0,) * (len(operator) - 1)",) and norm(v) == "operator[0]":
                ok = True
    rep.check(ok, R, "_list_to_dict: first list entry is the zeroth order", "", loc(f))

    f = repo.find("block_diagonalization::_symbolic_keys_to_tuples", R)
    ret = [n for n in own_nodes(f) if isinstance(n, ast.Return)]
    if len(ret) != 1 or not (isinstance(ret[0].value, ast.Tuple) and len(ret[0].value.elts) == 2
                             and all(isinstance(e, ast.Name) for e in ret[0].value.elts)):
        raise AnalysisError(R, "_symbolic_keys_to_tuples: does not return (dict, symbols) as two locals")
    D, S = (e.id for e in ret[0].value.elts)
    loops = [n for n in f.body if isinstance(n, ast.For) and isinstance(n.iter, ast.Call) and norm(n.iter) == "hamiltonian.items()"
             and isinstance(n.target, ast.Tuple) and len(n.target.elts) == 2]
    if len(loops) != 1:
        raise AnalysisError(R, "_symbolic_keys_to_tuples: loop over hamiltonian.items() not found")
    kname, vname = (norm(e) for e in loops[0].target.elts)
    st = [n for n in own_nodes(loops[0]) if isinstance(n, ast.Assign) and isinstance(n.targets[0], ast.Subscript)
          and norm(n.targets[0].value) == D]
    if len(st) != 1:
        raise AnalysisError(R, f"_symbolic_keys_to_tuples: {len(st)} stores into the returned dictionary")
    benv = run_block([x for x in loops[0].body[:loops[0].body.index(st[0])] if isinstance(x, ast.Assign)]) if st[0] in loops[0].body else None
    if benv is None:
        raise AnalysisError(R, "_symbolic_keys_to_tuples: the store is not a top-level statement of the loop")
    from .sem import ctext as _ctext_k
    ktext = _ctext_k(resolved(st[0].targets[0].slice, benv))
    ok = ktext == f"tuple(({kname}.as_powers_dict()[_v0] for _v0 in {S}))" and rtext(st[0].value, benv) == vname
    rep.check(ok, R, "_symbolic_keys_to_tuples builds each order tuple by iterating the returned `symbols` sequence",
              f"key `{ktext}` (orders are labelled by the same sequence `{S}` that becomes dimension_names)", loc(st[0]))
    rep.ok(R, "_symbolic_keys_to_tuples reads the exponent of each symbol from the key", f"{kname}.as_powers_dict()[symbol]", loc(st[0]))


def rule_view_indexing(rep: Report, repo: Repo):
    """A finite-only index (`series[1:, ::2]`) gives a view; numpy equivalence of the view holds by construction when its eval reads
    the parent at `item + index` (the finite part as given, the requested orders appended) or goes through a packed object array that
    numpy indexes.  An eval that translates view positions to parent positions by its own slice arithmetic must use start AND step
    of every slice (`slice.indices(n)` gives (start, stop, step)); using the start alone is reported, any other arithmetic is
    `cannot decide`.  Looked for in BlockSeries.__getitem__ and the methods of BlockSeries it calls."""
    R = "E2.views"
    cls = repo.find("series::BlockSeries", R)
    gi = [m for m in cls.body if isinstance(m, ast.FunctionDef) and m.name == "__getitem__"]
    if len(gi) != 1:
        raise AnalysisError(R, "BlockSeries.__getitem__ not found")
    hosts = [gi[0]] + [m for m in cls.body if isinstance(m, ast.FunctionDef) and m is not gi[0] and any(
        isinstance(c, ast.Call) and isinstance(c.func, ast.Attribute) and c.func.attr == m.name and norm(c.func.value) == "self" for c in ast.walk(gi[0]))]
    n_evals = 0
    for host in hosts:
        closures = [n for n in ast.walk(host) if isinstance(n, (ast.Lambda, ast.FunctionDef)) and n is not host]
        for cl in closures:
            loads = [x for x in ast.walk(cl) if isinstance(x, ast.Subscript) and isinstance(x.ctx, ast.Load) and norm(x.value) == "self"]
            if not loads:
                continue
            n_evals += 1
            idx_name = cl.args.vararg.arg if cl.args.vararg else None
            for ld_ in loads:
                t = norm(ld_.slice)
                inst = f"series::BlockSeries.{host.name} view eval reads the parent at `{t[:60]}`"
                if idx_name and t in (f"item + {idx_name}", f"(*item, *{idx_name})", f"item + tuple({idx_name})", f"tuple(item) + {idx_name}"):
                    rep.ok(R, inst, "the finite part as given with the requested orders appended: numpy equivalence by construction", repo.loc("series", ld_))
                    continue
                src = norm(host)
                uses_start = ".indices(" in src and ")[0]" in src or ".start" in src
                uses_step = ")[2]" in src or ".step" in src or "range(*" in src
                if uses_start and not uses_step:
                    rep.fail(R, f"series::BlockSeries.{host.name} maps view positions to parent positions from the START of each slice only",
                             f"parent index `{t[:70]}`; a slice with a step (`series[::2]`) selects start, start + step, ...: the view's shape "
                             "honours the step (it comes from numpy) but its contents do not", repo.loc("series", ld_))
                else:
                    raise AnalysisError(R, f"{inst}: not the given finite index with the orders appended: not understood")
    rep.floor(R, "view evals inspected", n_evals, 2)


def rule_symbol_order(rep: Report, repo: Repo):
    """The order of the user's `symbols` is API: it fixes which order index belongs to which parameter, and block_diagonalize /
    operator_to_BlockSeries label the result with the symbols in that order.  Every internal consumer of a symbolic or
    symbolic-key input must therefore receive `symbols` itself (or an order-preserving default for an omitted one); a re-ordering
    on the way (`sorted(...)`, a detour through a set) silently permutes the meaning of the indices."""
    from .resolve import env_at, resolved
    from .sem import bind_args
    R = "E2.keys"
    MODB = "block_diagonalization"
    n_sites = 0
    for host_name in ("_to_scalar_BlockSeries", "operator_to_BlockSeries", "block_diagonalize"):
        host = repo.find(f"{MODB}::{host_name}", R)
        if "symbols" not in [a.arg for a in host.args.args + host.args.kwonlyargs]:
            continue
        for c in [n for n in ast.walk(host) if isinstance(n, ast.Call) and call_name(n) in
                  ("_sympy_to_BlockSeries", "_dict_to_BlockSeries", "_symbolic_keys_to_tuples", "_to_scalar_BlockSeries", "operator_to_BlockSeries")]:
            callee = repo.find(f"{MODB}::{call_name(c)}", R)
            b = bind_args(callee, c)
            if b is None or "symbols" not in b:
                continue
            n_sites += 1
            v = resolved(b["symbols"], env_at(c, host, keep_params=False))  # a rebinding of the parameter on the way is seen
            inst = f"{MODB}::{host_name} hands `symbols` to {call_name(c)} in the caller's order"
            reorder = [x for x in ast.walk(v) if isinstance(x, ast.Call) and call_name(x) in ("sorted", "set", "frozenset", "reversed", "np.unique", "np.sort")
                       and any(isinstance(y, ast.Name) and y.id == "symbols" for y in ast.walk(x))]
            if reorder:
                rep.fail(R, f"{MODB}::{host_name} passes `{norm(v)[:70]}` as the symbols of {call_name(c)}",
                         f"`{norm(reorder[0])[:50]}` re-orders the symbols the caller listed: order index k of the expansion then belongs "
                         "to another parameter than the k-th entry of `symbols` (and of dimension_names)", repo.loc(MODB, c))
            elif norm(v) in ("symbols", "list(symbols)", "tuple(symbols)") or (isinstance(v, ast.BoolOp) and isinstance(v.op, ast.Or) and norm(v.values[0]) == "symbols"):
                rep.ok(R, inst, norm(v)[:60], repo.loc(MODB, c))
            elif not any(isinstance(y, ast.Name) and y.id == "symbols" for y in ast.walk(v)):
                raise AnalysisError(R, f"{MODB}::{host_name}: the symbols handed to {call_name(c)} (`{norm(v)[:60]}`) do not come from `symbols`: not understood")
            else:
                raise AnalysisError(R, f"{MODB}::{host_name}: `{norm(v)[:60]}` handed to {call_name(c)} as symbols: not understood")
    rep.floor(R, "internal consumers of `symbols`", n_sites, 3)


# ---------------------------------------------------------------------------
# E2.8 _check_finite exhaustiveness over OneItem (C19)
# ---------------------------------------------------------------------------

REPRESENTATIVES = {
    "int": {"good": [0, 3], "bad": [-1, -4]},
    "slice": {"good": [slice(None, 3), slice(0, 3), slice(1, 4, 2)],
              "bad": [slice(None, None), slice(2, None), slice(-1, 3)]},
    "list[int]": {"good": [[0, 2], [3]], "bad": [[1, -1], [-2]]},
}


def rule_check_finite(rep: Report, repo: Repo):
    from .absval import GuardTypeError, run_validator

    R = "E2.check_finite"
    tree = repo.trees["series"]
    decl = [n for n in tree.body if isinstance(n, ast.Assign) and norm(n.targets[0]) == "OneItem"]
    if len(decl) != 1:
        raise AnalysisError(R, "declaration of OneItem not found in series.py")
    members = []
    def union(t):
        if isinstance(t, ast.BinOp) and isinstance(t.op, ast.BitOr):
            union(t.left); union(t.right)
        else:
            members.append(norm(t))
    union(decl[0].value)
    for m in members:
        if m not in REPRESENTATIVES:
            raise AnalysisError(R, f"index item type `{m}` has no representatives in the checker")
    f = repo.find("series::BlockSeries::_check_finite", R)
    arg = [a.arg for a in f.args.args if a.arg != "self"]
    if len(arg) != 1:
        raise AnalysisError(R, "unexpected signature of _check_finite")
    from . import absval as _av
    _av.HELPERS.clear()
    _av.HELPERS.update({n.name: n for n in tree.body if isinstance(n, ast.FunctionDef)})  # module-level predicates it may call
    for m in members:
        for kind in ("good", "bad"):
            for r in REPRESENTATIVES[m][kind]:
                try:
                    out = run_validator(f.body, {arg[0]: (0, r), "self": None}, R)
                except GuardTypeError as e:
                    out = ("raise", f"TypeError in `{e}`")
                if kind == "good":
                    ok = out[0] in ("fall", "return")
                    want = "accepted"
                else:
                    ok = out == ("raise", "IndexError")
                    want = "IndexError"
                inst = f"series::BlockSeries._check_finite order item {m} = {r!r}: {want}"
                if ok:
                    rep.ok(R, inst, f"outcome {out}", repo.loc("series", f))
                else:
                    rep.fail(R, f"series::BlockSeries._check_finite {m} {'negative/unbounded' if kind == 'bad' else 'valid'} item {r!r} -> {out[0]} {out[1] or ''}".strip(),
                             f"required: {want}; the validator's outcome on this class of item is {out}",
                             repo.loc("series", f))
    # both validators dominate the construction of the trial array, with the right arguments
    g = repo.find("series::BlockSeries::__getitem__", R)
    cfg = CFG(g)
    dom = cfg.dominators()
    trial = [n for n in cfg.nodes if n.ast is not None and isinstance(n.ast, ast.Assign)
             and any(isinstance(c, ast.Call) and call_name(c) in ("np.zeros", "np.empty", "np.full") for c in ast.walk(n.ast.value))
             and "trial" in norm(n.ast.targets[0])]
    if not trial:
        raise AnalysisError(R, "trial-array construction not found in __getitem__")
    evaln = [n for n in cfg.nodes if n.ast is not None and any(
        isinstance(c, ast.Call) and dotted(c.func) == "self.eval" for c in ast.walk(n.ast))
        and not isinstance(n.ast, (ast.FunctionDef,))]
    for name, argtext in (("_check_finite", ("item[n_finite:]", "item[len(self.shape):]")),
                          ("_check_number_perturbations", ("item",))):
        calls = [n for n in cfg.nodes if n.kind == "stmt" and isinstance(n.ast, ast.Expr)
                 and isinstance(n.ast.value, ast.Call) and dotted(n.ast.value.func) == f"self.{name}"]
        ok = bool(calls) and all(any(c.id in dom[t.id] for c in calls) for t in trial + evaln)
        rep.check(ok, R, f"series::BlockSeries.__getitem__ `self.{name}(...)` dominates index resolution and evaluation",
                  "validation happens before any element is evaluated", repo.loc("series", g))
        from .resolve import env_at, rtext
        okarg = bool(calls) and all(len(c.ast.value.args) == 1 and (norm(c.ast.value.args[0]) in argtext or
                                    rtext(c.ast.value.args[0], env_at(c.ast, g)) in argtext) for c in calls)
        rep.check(okarg, R, f"series::BlockSeries.__getitem__ `self.{name}` receives {argtext[0]}",
                  norm(calls[0].ast) if calls else "missing", repo.loc("series", g))
    # the trial array is large enough along every order axis: its extent for an order item is at least the largest order that item
    # selects, plus one -- numpy clips a slice silently, so a shorter extent would drop requested orders (C19: numpy semantics)
    from .absval import Interp as _Interp
    ext = None
    from .resolve import env_at as _ea_t, resolved as _rs_t
    for tn in trial:
        for c in ast.walk(_rs_t(tn.ast.value, _ea_t(tn.ast, g))):
            if isinstance(c, (ast.GeneratorExp, ast.ListComp)) and len(c.generators) == 1 and isinstance(c.generators[0].target, ast.Name) \
                    and not c.generators[0].ifs:
                ext = (c.elt, c.generators[0].target.id)
    if ext is None:
        # the shape may be built in a local first
        for st_ in own_nodes(g):
            if isinstance(st_, ast.Assign) and any("shape" in norm(t_) for t_ in st_.targets):
                for c in ast.walk(st_.value):
                    if isinstance(c, (ast.GeneratorExp, ast.ListComp)) and len(c.generators) == 1 and isinstance(c.generators[0].target, ast.Name) \
                            and not c.generators[0].ifs and "shape" not in norm(c.generators[0].iter):
                        ext = (c.elt, c.generators[0].target.id)
    if ext is None:
        raise AnalysisError(R, "__getitem__: the extent of the trial array per order item was not found")
    ext_expr, ext_var = ext
    GOOD = {"int": [0, 3], "slice": [slice(None, 3), slice(1, 4), slice(0, 5, 2), slice(1, 6, 2), slice(2, 9, 3), slice(0, 6, 2)],
            "list[int]": [[0, 2], [3], [4, 1]]}
    short = []
    for kind_, reps in GOOD.items():
        for r_ in reps:
            if isinstance(r_, slice):
                sel = list(range(*r_.indices(r_.stop)))
                need = (max(sel) + 1) if sel else 0
            elif isinstance(r_, list):
                need = max(r_) + 1
            else:
                need = r_ + 1
            try:
                got = _Interp({ext_var: r_, "np": None}, R).ev(ext_expr)
            except GuardTypeError as e_:
                raise AnalysisError(R, f"__getitem__: extent `{norm(ext_expr)[:60]}` cannot be evaluated for the order item {r_!r} ({e_})")
            if not isinstance(got, int) or isinstance(got, bool):
                raise AnalysisError(R, f"__getitem__: extent `{norm(ext_expr)[:60]}` gives {got!r} for the order item {r_!r}")
            if got < need:
                short.append(f"{r_!r}: extent {got}, needs {need}")
    rep.check(not short, R, "series::BlockSeries.__getitem__ the trial array holds every order an index item selects",
              ("too short for " + "; ".join(short) + ": numpy clips the slice and the last requested orders are dropped") if short
              else f"extent `{norm(ext_expr)[:70]}` evaluated on {sum(len(v) for v in GOOD.values())} representative order items", repo.loc("series", g))
    # _check_number_perturbations rejects a wrong number of indices
    h = repo.find("series::BlockSeries::_check_number_perturbations", R)
    from itertools import product as _prod

    from .e2c import _const_eval
    from .sem import outcomes as _outcomes
    outs = _outcomes(h.body, None, env={})
    bad, undecided = [], None
    for a, b, c in _prod(range(4), repeat=3):
        sub = {"len(item)": a, "len(self.shape)": b, "self.n_infinite": c}
        taken = []
        for o in outs:
            vals = [(_const_eval(t, sub), p) for t, p in o.conds]
            if any(v is None for v, _ in vals):
                undecided = norm(o.conds[[v for v, _ in vals].index(None)][0])
                break
            if all(v == p for v, p in vals):
                taken.append(o)
        if undecided:
            break
        raised = [o for o in taken if o.kind == "raise"]
        is_index_error = all("IndexError" in norm(o.value) for o in raised)
        want_raise = a != b + c
        if (bool(raised) != want_raise) or (raised and not is_index_error) or len(taken) != 1:
            bad.append((a, b, c, [o.kind for o in taken]))
    if undecided:
        raise AnalysisError(R, f"_check_number_perturbations: condition `{undecided[:70]}` is not a closed comparison of the three lengths")
    rep.check(not bad, R, "series::BlockSeries._check_number_perturbations raises IndexError unless len(item) == len(shape) + n_infinite",
              f"evaluated on 64 (len(item), len(shape), n_infinite) triples; disagreeing: {bad[:3]}", repo.loc("series", h))
