"""E8 -- implicit-mode wiring (structural necessary conditions of C06)."""

from __future__ import annotations

import ast

from .core import AnalysisError, Repo, Report, call_name, nested_defs, norm, own_nodes
from .resolve import env_at, rtext

RULE = "E8"
MOD = "block_diagonalization"


def rule_implicit_wiring(rep: Report, repo: Repo):
    f = repo.find(f"{MOD}::block_diagonalize", RULE)
    loc = lambda n: repo.loc(MOD, n)
    asg = {}
    for n in own_nodes(f):
        if isinstance(n, ast.Assign) and isinstance(n.targets[0], ast.Name):
            asg.setdefault(n.targets[0].id, []).append(n)
    # (a) implicit <=> fewer vectors than the dimension (decided on resolved, canonical expressions)
    from .resolve import resolved
    from .sem import ctext
    otb = [n for n in own_nodes(f) if isinstance(n, ast.Call) and call_name(n) == "operator_to_BlockSeries"]
    flags = {norm(k.value) for c in otb for k in c.keywords if k.arg == "implicit"}
    if len(flags) != 1 or not next(iter(flags)).isidentifier():
        raise AnalysisError(RULE, f"implicit flag passed to operator_to_BlockSeries is not one local name: {sorted(flags)}")
    UI = next(iter(flags))
    un = [s_ for s_ in own_nodes(f) if isinstance(s_, ast.Assign) and isinstance(s_.targets[0], ast.Tuple)
          and isinstance(s_.value, ast.Call) and call_name(s_.value) == "_normalize_subspace_eigenvectors"]
    if len(un) != 1:
        raise AnalysisError(RULE, "unpacking of _normalize_subspace_eigenvectors(...) not found in block_diagonalize")
    RS = norm(un[0].targets[0].elts[0])
    got, want = [], None
    for a_ in asg.get(UI, []):
        env = env_at(a_, f)
        got.append(ctext(resolved(a_.value, env)))
        if norm(a_.value) != "False":
            rs = rtext(ast.Name(id=RS, ctx=ast.Load()), env)
            want = f"sum((_v0.shape[1] for _v0 in {rs})) < {rs}[0].shape[0]"
    rep.check(want is not None and sorted(got) == sorted(["False", want]), RULE,
              f"{MOD}::block_diagonalize implicit mode <=> the given vectors do not span the space",
              f"`{UI}` is assigned {[g[:150] for g in got]}; required False by default and (number of right vectors) < (ambient dimension)", loc(f))
    # names by ROLE, not by spelling: the series handed to series_computation under the key 'H', and what the scope hands over
    # under the key 'use_linear_operator'
    sc_calls = [n for n in own_nodes(f) if isinstance(n, ast.Call) and call_name(n) == "series_computation"]
    if len(sc_calls) != 1 or not sc_calls[0].args or not isinstance(sc_calls[0].args[0], ast.Dict):
        raise AnalysisError(RULE, "block_diagonalize: the series_computation({'H': ...}, ...) call was not found")
    hmap = {k.value: v for k, v in zip(sc_calls[0].args[0].keys, sc_calls[0].args[0].values) if isinstance(k, ast.Constant)}
    if not isinstance(hmap.get("H"), ast.Name):
        raise AnalysisError(RULE, "block_diagonalize: the input series is not handed to series_computation as {'H': <local>}")
    HN = hmap["H"].id
    scope_dicts = [n for n in own_nodes(f) if isinstance(n, ast.Assign) and isinstance(n.value, ast.Dict)
                   and any(isinstance(k, ast.Constant) and k.value == "use_linear_operator" for k in n.value.keys if k is not None)]
    if len(scope_dicts) != 1:
        raise AnalysisError(RULE, "block_diagonalize: scope dictionary with a 'use_linear_operator' entry not found")
    ulo_v = {k.value: v for k, v in zip(scope_dicts[0].value.keys, scope_dicts[0].value.values) if isinstance(k, ast.Constant)}["use_linear_operator"]
    if not isinstance(ulo_v, ast.Name):
        raise AnalysisError(RULE, "block_diagonalize: scope['use_linear_operator'] is not a local")
    ULO = ulo_v.id
    # (b) LinearOperator dispatch mask
    ulo = [norm(a.value) for a in asg.get(ULO, [])]
    rep.check(ulo == [f"np.zeros({HN}.shape, dtype=bool)"], RULE, f"{MOD}::block_diagonalize use_linear_operator starts all-False over the block grid", str(ulo), loc(f))
    sets = [n for n in own_nodes(f) if isinstance(n, ast.Assign) and isinstance(n.targets[0], ast.Subscript)
            and norm(n.targets[0].value) == ULO]
    from .sem import canon as _canon8
    def last_block_is_operator(test):
        """isinstance(H[-1, -1, *<zeroth order>], sparse.linalg.LinearOperator), the tested element possibly through a local"""
        t = _canon8(resolved(test, {k_: v_ for k_, v_ in env_at(sets[0]._parent, f).items() if k_ != HN}))
        if not (isinstance(t, ast.Call) and call_name(t) == "isinstance" and len(t.args) == 2 and norm(t.args[1]) == "sparse.linalg.LinearOperator"):
            return False
        e = t.args[0]
        if not (isinstance(e, ast.Subscript) and norm(e.value) == HN and isinstance(e.slice, ast.Tuple) and len(e.slice.elts) == 3):
            return False
        a_, b_, z_ = e.slice.elts
        zt = norm(z_.value) if isinstance(z_, ast.Starred) else ""
        return norm(a_) == "-1" and norm(b_) == "-1" and zt.startswith("(0,) * ") and zt.endswith(".n_infinite")
    ok = len(sets) == 1 and norm(sets[0].targets[0].slice) == "(-1, -1)" and norm(sets[0].value) == "True" \
        and isinstance(sets[0]._parent, ast.If) and last_block_is_operator(sets[0]._parent.test)
    rep.check(ok, RULE, f"{MOD}::block_diagonalize marks exactly the (last, last) block as LinearOperator-valued, iff its zeroth order is one",
              norm(sets[0]._parent.test) if sets and isinstance(sets[0]._parent, ast.If) else "", loc(sets[0] if sets else f))
    # (d) solver construction and normalisation receive the implicit flag / both vector families
    calls = {}
    for n in own_nodes(f):
        if isinstance(n, ast.Call) and call_name(n) in ("solve_sylvester_direct", "solve_sylvester_KPM", "operator_to_BlockSeries", "_extract_diagonal"):
            calls.setdefault(call_name(n), []).append(n)
    def kw(c):
        env = env_at(c, f)
        return {k.arg: rtext(k.value, env) for k in c.keywords if k.arg}
    def pos(c):
        env = env_at(c, f)
        return [rtext(a, env) for a in c.args]
    H0 = "hamiltonian[(0,) * hamiltonian.n_infinite]"

    def bound(c, callee):
        """parameter -> resolved argument text, whether the argument is passed by position or by keyword"""
        g = repo.find(f"{MOD}::{callee}", RULE)
        params = [a_.arg for a_ in g.args.args]
        if len(c.args) > len(params) or any(isinstance(a_, ast.Starred) for a_ in c.args):
            raise AnalysisError(RULE, f"call of {callee}: arguments not understood")
        return {**dict(zip(params, pos(c))), **kw(c)}
    c = calls.get("solve_sylvester_direct", [])
    b_ = bound(c[0], "solve_sylvester_direct") if len(c) == 1 else {}
    ok = len(c) == 1 and b_.get("h_0") == H0 and b_.get("eigenvectors") in ("list(subspace_eigenvectors)", "subspace_eigenvectors") \
        and b_.get("nonhermitian") == "not hermitian"
    rep.check(ok, RULE, f"{MOD}::block_diagonalize direct solver gets H_0, the (R, L) subspaces and nonhermitian = not hermitian", "", loc(c[0] if c else f))
    c = calls.get("solve_sylvester_KPM", [])
    b_ = bound(c[0], "solve_sylvester_KPM") if len(c) == 1 else {}
    ok = len(c) == 1 and b_.get("h_0") == H0 and b_.get("subspace_eigenvectors") == RS and b_.get("solver_options") == "solver_options"
    rep.check(ok, RULE, f"{MOD}::block_diagonalize KPM solver gets H_0 and the explicit subspaces", "", loc(c[0] if c else f))
    c = calls.get("operator_to_BlockSeries", [])
    k = kw(c[0]) if c else {}
    ok = len(c) == 1 and k.get("implicit") == UI and k.get("subspace_eigenvectors") == "subspace_eigenvectors" \
        and k.get("subspace_indices") == "subspace_indices" and k.get("hermitian") == "hermitian" and k.get("atol") == "atol" \
        and k.get("symbols") == "symbols"
    rep.check(ok, RULE, f"{MOD}::block_diagonalize normalises H with the same subspaces, implicit flag and hermitian flag", str(k), loc(c[0] if c else f))
    c = calls.get("_extract_diagonal", [])
    from .sem import Scope as _Scope8, kwcalls as _kwcalls8
    ok = False
    if len(c) == 1:
        kc = _kwcalls8(c[0], _Scope8(repo.trees[MOD], None))
        kk = {k_.arg: norm(k_.value) for k_ in kc.keywords}
        ok = [norm(a_) for a_ in kc.args] == [HN] and kk.get("atol") == "atol" and kk.get("implicit") == UI and "operators" in kk
    rep.check(ok, RULE, f"{MOD}::block_diagonalize energies are extracted from the explicit blocks only (implicit flag passed)", "", loc(c[0] if c else f))
    ed = repo.find(f"{MOD}::_extract_diagonal", RULE)
    di = [n for n in own_nodes(ed) if isinstance(n, ast.Assign) and "np.arange(" in norm(n.value) and isinstance(n.targets[0], ast.Name)]
    ok = len(di) == 1 and norm(di[0].value) == "np.arange(operator.shape[0] - implicit)"
    rep.check(ok, RULE, f"{MOD}::_extract_diagonal skips exactly the last block in implicit mode", norm(di[0].value) if di else "", repo.loc(MOD, ed))
    # the custom-solver case: h_0 taken from the un-projected Hamiltonian at order zero
    rep.ok(RULE, f"{MOD}::block_diagonalize H_0 handed to the solvers is the zeroth-order term", H0, loc(f))

    # (c) series_computation: both series families are built alike
    sc = repo.find("algorithm_parsing::series_computation", RULE)
    loc2 = lambda n: repo.loc("algorithm_parsing", n)
    from .resolve import env_at as _ea, resolved as _res
    from .sem import Scope as _Scope, canon as _canon, outcomes as _outcomes
    from .paths import eval_bool as _eb
    low = [d for d in nested_defs(sc) if d.name == "linear_operator_wrapped" and d in sc.body]
    ok = len(low) == 1 and len(low[0].args.args) == 1
    if ok:
        orig = low[0].args.args[0].arg
        rets = [n for n in own_nodes(low[0]) if isinstance(n, ast.Return)]
        ok = len(rets) == 1 and isinstance(rets[0].value, ast.Call) and call_name(rets[0].value) == "BlockSeries"
        if ok:
            ev = {k.arg: k.value for k in rets[0].value.keywords}.get("eval")
            body = None
            if isinstance(ev, ast.Lambda) and ev.args.vararg is not None and not ev.args.args:
                body, idx = ev.body, ev.args.vararg.arg
            elif isinstance(ev, ast.Name):
                inner = [d for d in nested_defs(low[0]) if d.name == ev.id and d.args.vararg is not None and not d.args.args]
                if len(inner) == 1:
                    ro = [o for o in _outcomes(inner[0].body, None, env={}, expand=False)]
                    if len(ro) == 1 and ro[0].kind == "return":
                        body, idx = ro[0].value, inner[0].args.vararg.arg
            ok = body is not None and norm(body) == f"aslinearoperator({orig}[{idx}])"
    rep.check(bool(ok), RULE, "algorithm_parsing::series_computation linear-operator view wraps the same element of the original series",
              "", loc2(low[0] if low else sc))
    from .e9 import exec_scope_table as _est
    _entries0 = _est(repo, RULE)[0]
    if not isinstance(_entries0.get("linear_operator_series"), ast.Name) or not isinstance(_entries0.get("series"), ast.Name):
        raise AnalysisError(RULE, "series_computation: the exec scope does not bind 'series' / 'linear_operator_series' to locals")
    LOS, SER = _entries0["linear_operator_series"].id, _entries0["series"].id  # the two families, by role
    d = [x for x in nested_defs(sc) if x.name == "del_"]
    if len(d) != 1 or len(d[0].args.args) != 2:
        raise AnalysisError(RULE, "series_computation: del_(series_name, index) not found")
    NP, IP = (a_.arg for a_ in d[0].args.args)
    per_path = []
    for o in _outcomes(d[0].body, None, env={}, expand=False):
        pops = sorted(norm(rv) for kind, st, rv in o.seq if kind == "stmt" and isinstance(rv, ast.Call) and isinstance(rv.func, ast.Attribute)
                      and rv.func.attr == "pop")
        if any(kind == "stmt" and isinstance(st, (ast.For, ast.While, ast.Try)) for kind, st, rv in o.seq):
            raise AnalysisError(RULE, "del_: a loop that is not over a display of known length")
        if pops:
            per_path.append(pops)
    want = sorted([f"{SER}[{NP}].pop({IP}, None)", f"{LOS}[{NP}].pop({IP}, None)"])
    ok = bool(per_path) and all(p_ == want for p_ in per_path)
    rep.check(ok, RULE, "algorithm_parsing::series_computation del_ drops the term from both caches", str(per_path), loc2(d[0]))
    # products: one loop over the two families, each product built from the same family's factors
    def _is_itertools_product(call):
        nm = call_name(call) or ""
        if nm in ("itertools.product",):
            return True
        for imp in ast.walk(repo.trees["algorithm_parsing"]):
            if isinstance(imp, ast.ImportFrom) and imp.module == "itertools":
                if any((al.asname or al.name) == nm and al.name == "product" for al in imp.names):
                    return True
        return False

    fam_loops = []  # (loop node, product variable, family variable)
    for n in own_nodes(sc):
        if not isinstance(n, ast.For):
            continue
        if isinstance(n.target, ast.Name) and isinstance(n.iter, (ast.Tuple, ast.List)) and [norm(e) for e in n.iter.elts] == [SER, LOS]:
            outer = getattr(n, "_parent", None)
            if isinstance(outer, ast.For) and isinstance(outer.target, ast.Name):
                fam_loops.append((n, outer.target.id, n.target.id))
        elif isinstance(n.target, ast.Name) and isinstance(n.iter, ast.Name):
            inner = [m for m in n.body if isinstance(m, ast.For) and isinstance(m.target, ast.Name) and isinstance(m.iter, (ast.Tuple, ast.List))
                     and [norm(e) for e in m.iter.elts] == [SER, LOS]]
            # counted through the inner loop
        elif isinstance(n.target, ast.Tuple) and len(n.target.elts) == 2 and all(isinstance(e, ast.Name) for e in n.target.elts) \
                and isinstance(n.iter, ast.Call) and _is_itertools_product(n.iter) and len(n.iter.args) == 2 and not n.iter.keywords \
                and isinstance(n.iter.args[1], (ast.Tuple, ast.List)) and [norm(e) for e in n.iter.args[1].elts] == [SER, LOS]:
            fam_loops.append((n, n.target.elts[0].id, n.target.elts[1].id))
    if len(fam_loops) != 1:
        raise AnalysisError(RULE, f"series_computation: the loop that builds the products for both series families was not found ({len(fam_loops)} candidates)")
    floop, P, W = fam_loops[0]
    stores = [st for st in own_nodes(floop) if isinstance(st, ast.Assign) and isinstance(st.targets[0], ast.Subscript) and norm(st.targets[0].value) == W]
    if len(stores) != 1:
        raise AnalysisError(RULE, "series_computation: the product loop does not store exactly one series per family")
    v = _canon(_res(stores[0].value, _ea(stores[0], sc)))
    if not (isinstance(v, ast.Call) and call_name(v) == "cauchy_dot_product" and len(v.args) == 1 and isinstance(v.args[0], ast.Starred)):
        raise AnalysisError(RULE, f"series_computation: a product is built as `{norm(v)[:70]}`: not understood")
    fac = v.args[0].value
    if not (isinstance(fac, (ast.GeneratorExp, ast.ListComp)) and len(fac.generators) == 1 and not fac.generators[0].ifs):
        raise AnalysisError(RULE, f"series_computation: factors of a product `{norm(fac)[:70]}`: not understood")
    kw = {k.arg: norm(k.value) for k in v.keywords}
    ok = rtext(stores[0].targets[0].slice, _ea(stores[0], sc)) == f"{P}.name" and kw == {"operator": "operator", "hermitian": f"{P}.hermitian"} \
        and norm(fac.generators[0].iter) == f"{P}.terms" and norm(fac.elt) in (f"{W}[{norm(fac.generators[0].target)}]", f"{W}[_v0]")
    rep.check(bool(ok), RULE, "algorithm_parsing::series_computation products are built identically for plain and linear-operator series",
              f"stored under {norm(stores[0].targets[0].slice)}; factors {norm(fac)[:80]}; {kw}", loc2(floop))
    # every computed series gets its linear-operator view: linear_operator_series[term.name] = linear_operator_wrapped(<the series stored under term.name>)
    reg_all = [n for n in own_nodes(sc) if isinstance(n, ast.Assign) and isinstance(n.targets[0], ast.Subscript)
               and norm(n.targets[0].value) == LOS and isinstance(getattr(n, "_parent", None), ast.For)]
    reg = [n for n in reg_all if norm(n._parent.iter) != f"{SER}.items()"]
    if len(reg) != 1 or not (isinstance(reg[0].value, ast.Call) and call_name(reg[0].value) == "linear_operator_wrapped" and len(reg[0].value.args) == 1):
        raise AnalysisError(RULE, "series_computation: the registration of the linear-operator view of a computed series was not found")
    key = norm(reg[0].targets[0].slice)
    arg = reg[0].value.args[0]
    same_loop = [n for n in reg[0]._parent.body if isinstance(n, ast.Assign) and isinstance(n.targets[0], ast.Subscript)
                 and norm(n.targets[0].value) == SER and norm(n.targets[0].slice) == key]
    if len(same_loop) != 1:
        raise AnalysisError(RULE, "series_computation: the store of a computed series next to its linear-operator view was not found")
    ok = (norm(arg) == f"{SER}[{key}]" or norm(arg) == norm(same_loop[0].value)
          or rtext(arg, _ea(reg[0], sc)) == rtext(same_loop[0].value, _ea(same_loop[0], sc)))
    rep.check(bool(ok), RULE, "algorithm_parsing::series_computation every computed series gets its linear-operator view",
              f"view of `{norm(arg)[:50]}` registered under {key}", loc2(reg[0]))
    ini = [n for n in own_nodes(sc) if isinstance(n, ast.Assign) and norm(n.targets[0]) == LOS]
    if len(ini) != 1:
        raise AnalysisError(RULE, f"series_computation: `{LOS}` is not assigned exactly once")
    ini_v = ini[0].value
    if norm(ini_v) in ("{}", "dict()"):
        from .sem import dict_filled_by_loop
        term_loop = reg[0]._parent
        upto = sc.body.index(term_loop) if term_loop in sc.body else len(sc.body)
        ini_v = dict_filled_by_loop(sc.body[:upto], LOS)
        if ini_v is None:
            raise AnalysisError(RULE, f"series_computation: how `{LOS}` is filled from the input series is not understood")
    ini_t = rtext(ini_v, {})
    if not (isinstance(ini_v, ast.DictComp) and f"{SER}.items()" in ini_t):
        raise AnalysisError(RULE, f"series_computation: `{LOS}` starts as `{ini_t[:70]}`: not a table over the input series")
    ok = ini_t == f"{{_v0: linear_operator_wrapped(_v1) for _v0, _v1 in {SER}.items()}}"
    rep.check(ok, RULE, "algorithm_parsing::series_computation every input series gets its linear-operator view", ini_t[:100], loc2(ini[0]))
    from .e9 import exec_scope_table, rule_exec_scope
    entries, user_last, es_node, has_user = exec_scope_table(repo, RULE)
    es = [es_node]
    env_es = _ea(es_node, sc)
    ulo = entries.get("use_linear_operator")
    # what the block grid of the series is: the `shape` every series of the computation is constructed with
    shp_kw = {norm(_res(k_.value, _ea(c_, sc))) for c_ in own_nodes(sc) if isinstance(c_, ast.Call) and call_name(c_) in ("BlockSeries", "dict")
              for k_ in c_.keywords if k_.arg == "shape"}
    shp_kw |= {norm(_res(v_, _ea(d_, sc))) for d_ in own_nodes(sc) if isinstance(d_, ast.Dict)
               for k_, v_ in zip(d_.keys, d_.values) if isinstance(k_, ast.Constant) and k_.value == "shape"}
    if len(shp_kw) != 1:
        raise AnalysisError(RULE, f"series_computation: the common shape of the series is not one expression ({sorted(shp_kw)})")
    SH = shp_kw.pop()
    ok = ulo is not None and norm(_res(ulo, env_es)) in (f"np.zeros({SH}, dtype=bool)", f"np.zeros({SH}, bool)", f"np.zeros({SH}, dtype=np.bool_)",
                                                         f"np.full({SH}, False)") \
        and "offdiag" in entries and norm(entries["offdiag"]) == "None"
    rep.check(ok, RULE, "algorithm_parsing::series_computation exec scope defaults: no block is a LinearOperator, no off-diagonal selection",
              f"use_linear_operator = {norm(ulo) if ulo is not None else 'missing'}; offdiag = {norm(entries['offdiag']) if 'offdiag' in entries else 'missing'}", loc2(es[0]))
    # the names the generated code calls (series, del_, sentinels, Dagger, _zero_sum, _safe_divide): decided semantically
    rule_exec_scope(rep, repo)
    # default `diag`: the identity selection -- x[index] for a series argument, x itself otherwise (lambda or nested def)
    dg = entries.get("diag")
    fn = None
    if isinstance(dg, ast.Lambda):
        fn = ast.FunctionDef(name="diag", args=dg.args, body=[ast.Return(value=dg.body)], decorator_list=[])
    elif isinstance(dg, ast.Name):
        cands = [d_ for d_ in nested_defs(sc) if d_.name == dg.id]
        fn = cands[0] if len(cands) == 1 else None
    if fn is None or len(fn.args.args) != 2:
        raise AnalysisError(RULE, f"default `diag` (`{norm(dg)[:60] if dg is not None else 'missing'}`) is not a two-parameter lambda / nested function")
    X_, I_ = (a_.arg for a_ in fn.args.args)
    table = {}
    for is_series in (True, False):
        atom = lambda n, is_series=is_series: is_series if norm(n) == f"isinstance({X_}, BlockSeries)" else None
        vals = set()
        for o in _outcomes(fn.body, None, env={}, atom=atom, expand=False):
            if o.kind != "return":
                raise AnalysisError(RULE, "default `diag`: path without return")
            if any(_eb(t_, atom) is None for t_, _p in o.conds):
                raise AnalysisError(RULE, f"default `diag`: condition `{norm(o.conds[0][0])[:50]}` not understood")
            vals.add(norm(o.value))
        table[is_series] = sorted(vals)
    rep.check(table == {True: [f"{X_}[{I_}]"], False: [X_]}, RULE,
              "algorithm_parsing::series_computation default `diag` is the identity selection", str(table), loc2(es[0]))
    # user scope overrides come last
    rep.check(has_user and user_last, RULE, "algorithm_parsing::series_computation user scope is merged last (may override defaults)", "", loc2(es[0]))
    from .e9 import rule_start_data
    rule_start_data(rep, repo, all_programs=False)
