"""E8 -- implicit-mode wiring (structural necessary conditions of C06)."""

from __future__ import annotations

import ast

from .core import AnalysisError, Repo, Report, call_name, nested_defs, norm, own_nodes
from .resolve import env_at, rtext

RULE = "E8"
MOD = "block_diagonalization"


def rule_implicit_wiring(rep: Report, repo: Repo):
    f = repo.find(f"{MOD}::block_diagonalize", RULE)
    loc = lambda n: repo.loc(MOD, n)
    asg = {}
    for n in own_nodes(f):
        if isinstance(n, ast.Assign) and isinstance(n.targets[0], ast.Name):
            asg.setdefault(n.targets[0].id, []).append(n)
    # (a) implicit <=> fewer vectors than the dimension (decided on resolved, canonical expressions)
    from .resolve import resolved
    from .sem import ctext
    otb = [n for n in own_nodes(f) if isinstance(n, ast.Call) and call_name(n) == "operator_to_BlockSeries"]
    flags = {norm(k.value) for c in otb for k in c.keywords if k.arg == "implicit"}
    if len(flags) != 1 or not next(iter(flags)).isidentifier():
        raise AnalysisError(RULE, f"implicit flag passed to operator_to_BlockSeries is not one local name: {sorted(flags)}")
    UI = next(iter(flags))
    un = [s_ for s_ in own_nodes(f) if isinstance(s_, ast.Assign) and isinstance(s_.targets[0], ast.Tuple)
          and isinstance(s_.value, ast.Call) and call_name(s_.value) == "_normalize_subspace_eigenvectors"]
    if len(un) != 1:
        raise AnalysisError(RULE, "unpacking of _normalize_subspace_eigenvectors(...) not found in block_diagonalize")
    RS = norm(un[0].targets[0].elts[0])
    got, want = [], None
    for a_ in asg.get(UI, []):
        env = env_at(a_, f)
        got.append(ctext(resolved(a_.value, env)))
        if norm(a_.value) != "False":
            rs = rtext(ast.Name(id=RS, ctx=ast.Load()), env)
            want = f"sum((_v0.shape[1] for _v0 in {rs})) < {rs}[0].shape[0]"
    rep.check(want is not None and sorted(got) == sorted(["False", want]), RULE,
              f"{MOD}::block_diagonalize implicit mode <=> the given vectors do not span the space",
              f"`{UI}` is assigned {[g[:150] for g in got]}; required False by default and (number of right vectors) < (ambient dimension)", loc(f))
    # (b) LinearOperator dispatch mask
    ulo = [norm(a.value) for a in asg.get("use_linear_operator", [])]
    rep.check(ulo == ["np.zeros(H.shape, dtype=bool)"], RULE, f"{MOD}::block_diagonalize use_linear_operator starts all-False over the block grid", str(ulo), loc(f))
    sets = [n for n in own_nodes(f) if isinstance(n, ast.Assign) and isinstance(n.targets[0], ast.Subscript)
            and norm(n.targets[0].value) == "use_linear_operator"]
    ok = len(sets) == 1 and norm(sets[0].targets[0].slice) == "(-1, -1)" and norm(sets[0].value) == "True" \
        and isinstance(sets[0]._parent, ast.If) and norm(sets[0]._parent.test) in (
            "isinstance(H[-1, -1, *zero_order], sparse.linalg.LinearOperator)",
            "isinstance(H[(-1, -1, *zero_order)], sparse.linalg.LinearOperator)")
    rep.check(ok, RULE, f"{MOD}::block_diagonalize marks exactly the (last, last) block as LinearOperator-valued, iff its zeroth order is one",
              norm(sets[0]._parent.test) if sets and isinstance(sets[0]._parent, ast.If) else "", loc(sets[0] if sets else f))
    # (d) solver construction and normalisation receive the implicit flag / both vector families
    calls = {}
    for n in own_nodes(f):
        if isinstance(n, ast.Call) and call_name(n) in ("solve_sylvester_direct", "solve_sylvester_KPM", "operator_to_BlockSeries", "_extract_diagonal"):
            calls.setdefault(call_name(n), []).append(n)
    def kw(c):
        env = env_at(c, f)
        return {k.arg: rtext(k.value, env) for k in c.keywords if k.arg}
    def pos(c):
        env = env_at(c, f)
        return [rtext(a, env) for a in c.args]
    H0 = "hamiltonian[(0,) * hamiltonian.n_infinite]"
    c = calls.get("solve_sylvester_direct", [])
    ok = len(c) == 1 and pos(c[0]) in ([H0, "list(subspace_eigenvectors)"], [H0, "subspace_eigenvectors"]) \
        and kw(c[0]).get("nonhermitian") == "not hermitian"
    rep.check(ok, RULE, f"{MOD}::block_diagonalize direct solver gets H_0, the (R, L) subspaces and nonhermitian = not hermitian", "", loc(c[0] if c else f))
    c = calls.get("solve_sylvester_KPM", [])
    ok = len(c) == 1 and pos(c[0]) == [H0, "right_subspaces"] and kw(c[0]).get("solver_options") == "solver_options"
    rep.check(ok, RULE, f"{MOD}::block_diagonalize KPM solver gets H_0 and the explicit subspaces", "", loc(c[0] if c else f))
    c = calls.get("operator_to_BlockSeries", [])
    k = kw(c[0]) if c else {}
    ok = len(c) == 1 and k.get("implicit") == UI and k.get("subspace_eigenvectors") == "subspace_eigenvectors" \
        and k.get("subspace_indices") == "subspace_indices" and k.get("hermitian") == "hermitian" and k.get("atol") == "atol" \
        and k.get("symbols") == "symbols"
    rep.check(ok, RULE, f"{MOD}::block_diagonalize normalises H with the same subspaces, implicit flag and hermitian flag", str(k), loc(c[0] if c else f))
    c = calls.get("_extract_diagonal", [])
    ok = len(c) == 1 and pos(c[0]) == ["H", "atol", UI, "operators"]
    rep.check(ok, RULE, f"{MOD}::block_diagonalize energies are extracted from the explicit blocks only (implicit flag passed)", "", loc(c[0] if c else f))
    ed = repo.find(f"{MOD}::_extract_diagonal", RULE)
    di = [n for n in own_nodes(ed) if isinstance(n, ast.Assign) and norm(n.targets[0]) == "diag_indices"]
    ok = len(di) == 1 and norm(di[0].value) == "np.arange(operator.shape[0] - implicit)"
    rep.check(ok, RULE, f"{MOD}::_extract_diagonal skips exactly the last block in implicit mode", norm(di[0].value) if di else "", repo.loc(MOD, ed))
    # the custom-solver case: h_0 taken from the un-projected Hamiltonian at order zero
    rep.ok(RULE, f"{MOD}::block_diagonalize H_0 handed to the solvers is the zeroth-order term", H0, loc(f))

    # (c) series_computation: both series families are built alike
    sc = repo.find("algorithm_parsing::series_computation", RULE)
    loc2 = lambda n: repo.loc("algorithm_parsing", n)
    low = [d for d in nested_defs(sc) if d.name == "linear_operator_wrapped"]
    ok = len(low) == 1
    if ok:
        lam = [n for n in ast.walk(low[0]) if isinstance(n, ast.Lambda)]
        ok = len(lam) == 1 and lam[0].args.vararg is not None and not lam[0].args.args and \
            norm(lam[0].body) == f"aslinearoperator({low[0].args.args[0].arg}[{lam[0].args.vararg.arg}])"
    rep.check(ok, RULE, "algorithm_parsing::series_computation linear-operator view wraps the same element of the original series",
              "", loc2(low[0] if low else sc))
    d = [x for x in nested_defs(sc) if x.name == "del_"]
    pops = [norm(n) for n in own_nodes(d[0]) if isinstance(n, ast.Call) and isinstance(n.func, ast.Attribute) and n.func.attr == "pop"] if d else []
    ok = sorted(pops) == sorted(["series[series_name].pop(index, None)", "linear_operator_series[series_name].pop(index, None)"])
    rep.check(ok, RULE, "algorithm_parsing::series_computation del_ drops the term from both caches", str(pops), loc2(d[0] if d else sc))
    loops = [n for n in own_nodes(sc) if isinstance(n, ast.For) and norm(n.target) == "which"]
    ok = len(loops) == 1 and norm(loops[0].iter) in ("(series, linear_operator_series)",)
    if ok:
        st = loops[0].body[0]
        ok = isinstance(st, ast.Assign) and norm(st.targets[0]) == "which[product.name]" and isinstance(st.value, ast.Call) \
            and call_name(st.value) == "cauchy_dot_product" and rtext(st.value.args[0], {}) == "*(which[_v0] for _v0 in product.terms)" \
            and {k.arg: norm(k.value) for k in st.value.keywords} == {"operator": "operator", "hermitian": "product.hermitian"}
    rep.check(ok, RULE, "algorithm_parsing::series_computation products are built identically for plain and linear-operator series",
              "same factor names, operator and hermitian flag", loc2(loops[0] if loops else sc))
    reg = [n for n in own_nodes(sc) if isinstance(n, ast.Assign) and norm(n.targets[0]) == "linear_operator_series[term.name]"]
    ok = len(reg) == 1 and norm(reg[0].value) == "linear_operator_wrapped(series[term.name])"
    rep.check(ok, RULE, "algorithm_parsing::series_computation every computed series gets its linear-operator view", "", loc2(reg[0] if reg else sc))
    ini = [n for n in own_nodes(sc) if isinstance(n, ast.Assign) and norm(n.targets[0]) == "linear_operator_series"]
    ok = len(ini) == 1 and rtext(ini[0].value, {}) == "{_v0: linear_operator_wrapped(_v1) for _v0, _v1 in series.items()}"
    rep.check(ok, RULE, "algorithm_parsing::series_computation every input series gets its linear-operator view", "", loc2(ini[0] if ini else sc))
    es = [n for n in own_nodes(sc) if isinstance(n, ast.Assign) and norm(n.targets[0]) == "eval_scope" and isinstance(n.value, ast.Dict)]
    if len(es) != 1:
        raise AnalysisError(RULE, "eval_scope not found")
    dd = {k.value: norm(v) for k, v in zip(es[0].value.keys, es[0].value.values) if isinstance(k, ast.Constant)}
    ok = dd.get("series") == "series" and dd.get("linear_operator_series") == "linear_operator_series" and dd.get("del_") == "del_" \
        and dd.get("use_linear_operator") == "np.zeros(shape, dtype=bool)" and dd.get("offdiag") == "None" \
        and dd.get("zero") == "zero" and dd.get("Dagger") == "Dagger" and dd.get("_zero_sum") == "_zero_sum" and dd.get("_safe_divide") == "_safe_divide"
    rep.check(ok, RULE, "algorithm_parsing::series_computation exec scope binds series / linear_operator_series / del_ / sentinels to the names the generated code uses",
              "", loc2(es[0]))
    dg = dd.get("diag")
    rep.check(dg == "lambda x, index: x[index] if isinstance(x, BlockSeries) else x", RULE,
              "algorithm_parsing::series_computation default `diag` is the identity selection", str(dg), loc2(es[0]))
    # user scope overrides come last
    keys = es[0].value.keys
    rep.check(keys and keys[-1] is None, RULE, "algorithm_parsing::series_computation user scope is merged last (may override defaults)", "", loc2(es[0]))
    # start data
    data = [n for n in own_nodes(sc) if isinstance(n, ast.Assign) and norm(n.targets[0]) in ("zero_data", "identity_data")]
    texts = {norm(n.targets[0]): norm(n.value) for n in data}
    ok = texts.get("zero_data") == "{block + zeroth_order: zero for block in all_blocks}" and \
        texts.get("identity_data") == "{block + zeroth_order: one for block in diagonal}"
    rep.check(ok, RULE, "algorithm_parsing::series_computation start = 0 pins zero on every block, start = 1 pins the identity on diagonal blocks, at order zero",
              str(texts), loc2(sc))
