"""Three-valued boolean evaluation of guard expressions and structured path
enumeration through straight-line/if code (used by E2, E5, E10).

``eval_bool(expr, atom)``: ``atom(node)`` returns True/False/None for an atomic
sub-expression (anything that is not ``and``/``or``/``not``); None = free.
``enum_paths(stmts, atom)``: all syntactic paths through a statement list where
conditions decided by ``atom`` are followed one way and free ones both ways.
"""

from __future__ import annotations

import ast
from dataclasses import dataclass, field
from itertools import product
from typing import Callable

from .core import AnalysisError, norm

Atom = Callable[[ast.AST], "bool | None"]


def eval_bool(expr: ast.AST, atom: Atom):
    if isinstance(expr, ast.BoolOp):
        vals = [eval_bool(v, atom) for v in expr.values]
        if isinstance(expr.op, ast.And):
            if any(v is False for v in vals):
                return False
            return True if all(v is True for v in vals) else None
        if any(v is True for v in vals):
            return True
        return False if all(v is False for v in vals) else None
    if isinstance(expr, ast.UnaryOp) and isinstance(expr.op, ast.Not):
        v = eval_bool(expr.operand, atom)
        return None if v is None else (not v)
    if isinstance(expr, ast.Constant) and isinstance(expr.value, bool):
        return expr.value
    return atom(expr)


def bool_atoms(expr: ast.AST) -> list[ast.AST]:
    if isinstance(expr, ast.BoolOp):
        out = []
        for v in expr.values:
            out += bool_atoms(v)
        return out
    if isinstance(expr, ast.UnaryOp) and isinstance(expr.op, ast.Not):
        return bool_atoms(expr.operand)
    return [expr]


def truth_table(expr: ast.AST, classify: Callable[[ast.AST], "str | None"]):
    """Evaluate ``expr`` on every valuation of its classified atoms.

    ``classify(atom_node)`` -> (name, polarity) or None for atoms that must not occur.
    Returns (names, {valuation tuple: bool}).  Unclassified atom -> AnalysisError.
    """
    atoms = bool_atoms(expr)
    names: list[str] = []
    amap: list[tuple[ast.AST, str, bool]] = []
    for a in atoms:
        c = classify(a)
        if c is None:
            raise AnalysisError("paths", f"unrecognised guard atom `{norm(a)}`")
        name, pol = c
        if name not in names:
            names.append(name)
        amap.append((a, name, pol))
    table = {}
    for vals in product([False, True], repeat=len(names)):
        env = dict(zip(names, vals))

        def atom(n, env=env):
            for a, name, pol in amap:
                if a is n:
                    return env[name] if pol else not env[name]
            return None

        table[vals] = eval_bool(expr, atom)
    return names, table


@dataclass
class Path:
    events: list[ast.AST] = field(default_factory=list)  # simple statements executed, in order
    choices: list[tuple[ast.AST, bool, bool]] = field(default_factory=list)  # (test, value, free?)
    end: str = "fallthrough"  # fallthrough | continue | break | return | raise
    end_node: ast.AST | None = None


def enum_paths(stmts: list[ast.stmt], atom: Atom, limit: int = 4096) -> list[Path]:
    done: list[Path] = []

    def walk(stmts, path: Path, cont):
        """cont(path) is called when the statement list completes normally."""
        if len(done) > limit:
            raise AnalysisError("paths", "too many paths")
        if not stmts:
            cont(path)
            return
        s, rest = stmts[0], stmts[1:]
        if isinstance(s, ast.If):
            v = eval_bool(s.test, atom)
            for val in ([v] if v is not None else [True, False]):
                p = Path(path.events + [s.test], path.choices + [(s.test, val, v is None)])
                walk(s.body if val else s.orelse, p, lambda q: walk(rest, q, cont))
            return
        if isinstance(s, (ast.Continue, ast.Break, ast.Return, ast.Raise)):
            p = Path(path.events + ([s] if isinstance(s, (ast.Return, ast.Raise)) else []), list(path.choices),
                     {ast.Continue: "continue", ast.Break: "break", ast.Return: "return", ast.Raise: "raise"}[type(s)], s)
            done.append(p)
            return
        if isinstance(s, (ast.For, ast.While, ast.Try, ast.Match)):
            # opaque compound statement: recorded as one event (callers decide whether that is acceptable)
            walk(rest, Path(path.events + [s], list(path.choices)), cont)
            return
        if isinstance(s, ast.With):
            walk(s.body + rest, Path(path.events + [s.items[0].context_expr], list(path.choices)), cont)
            return
        if isinstance(s, (ast.FunctionDef, ast.ClassDef)):
            walk(rest, Path(path.events + [s], list(path.choices)), cont)
            return
        walk(rest, Path(path.events + [s], list(path.choices)), cont)

    def finish(p: Path):
        done.append(p)

    walk(list(stmts), Path(), finish)
    return done
