"""E2.2/E2.3/E2.4 -- ``series.product_by_order`` decided on resolved paths (rename / restructuring
insensitive re-implementation of the rules described in DESIGN.md, engine E2)."""

from __future__ import annotations

import ast
from itertools import product as iproduct

from .core import AnalysisError, Repo, Report, call_name, norm, own_nodes
from .e2 import range_interval, tuple_items
from .paths import bool_atoms, eval_bool
from .resolve import resolved, run_block
from .sem import Scope, canon, outcomes

R = "E2.product_by_order"


_BINARY_FUNCS = {"sub": ast.Sub, "operator.sub": ast.Sub, "add": ast.Add, "operator.add": ast.Add}


def _strip_tuple(e):
    while isinstance(e, ast.Call) and call_name(e) == "tuple" and len(e.args) == 1:
        e = e.args[0]
    # map(sub, A, B) is (x - y for x, y in zip(A, B))
    if isinstance(e, ast.Call) and call_name(e) == "map" and len(e.args) == 3 and not e.keywords and call_name(ast.Call(func=e.args[0], args=[], keywords=[])) in _BINARY_FUNCS:
        op = _BINARY_FUNCS[call_name(ast.Call(func=e.args[0], args=[], keywords=[]))]()
        x, y = ast.Name(id="_m0", ctx=ast.Load()), ast.Name(id="_m1", ctx=ast.Load())
        e = ast.GeneratorExp(elt=ast.BinOp(left=x, op=op, right=y), generators=[ast.comprehension(
            target=ast.Tuple(elts=[ast.Name(id="_m0", ctx=ast.Store()), ast.Name(id="_m1", ctx=ast.Store())], ctx=ast.Store()),
            iter=ast.Call(func=ast.Name(id="zip", ctx=ast.Load()), args=[e.args[1], e.args[2]], keywords=[]), ifs=[], is_async=0)])
    return e


def _is_complement(b, a, orders: str) -> bool:
    """b == tuple(x - y for x, y in zip(orders, a))  (component-wise orders - a)."""
    b = _strip_tuple(b)
    if not isinstance(b, (ast.GeneratorExp, ast.ListComp)) or len(b.generators) != 1:
        return False
    g = b.generators[0]
    if g.ifs or not (isinstance(g.iter, ast.Call) and call_name(g.iter) == "zip" and len(g.iter.args) == 2):
        return False
    if not (isinstance(g.target, ast.Tuple) and len(g.target.elts) == 2):
        return False
    x, y = (norm(t) for t in g.target.elts)
    za, zb = g.iter.args
    if not (isinstance(b.elt, ast.BinOp) and isinstance(b.elt.op, ast.Sub)):
        return False
    l, r = norm(b.elt.left), norm(b.elt.right)
    a_txt = norm(_strip_tuple(a))
    if norm(za) == orders and norm(_strip_tuple(zb)) == a_txt:
        return (l, r) == (x, y)
    if norm(zb) == orders and norm(_strip_tuple(za)) == a_txt:
        return (l, r) == (y, x)
    return False


def _ancestors_within(n, root):
    out = []
    p = getattr(n, "_parent", None)
    while p is not None and p is not root:
        out.append(p)
        p = getattr(p, "_parent", None)
    return out


def rule_product_by_order(rep: Report, repo: Repo):
    f = repo.find("series::product_by_order", R)
    loc = lambda n: repo.loc("series", n)
    params = [a.arg for a in f.args.args]
    if params[:3] != ["index", "first", "second"] or "hermitian" not in params or "operator" not in params:
        raise AnalysisError(R, f"unexpected signature {params}")
    scope = Scope(repo.trees["series"], f)
    loops = [s for s in f.body if isinstance(s, ast.For)]
    if len(loops) != 1:
        raise AnalysisError(R, f"expected one top-level loop, found {len(loops)}")
    loop = loops[0]
    pre = f.body[: f.body.index(loop)]
    post = f.body[f.body.index(loop) + 1:]
    # -- skeleton: `result = zero` before, `return result` after, no other exit -----------------------
    rets = [n for n in own_nodes(f) if isinstance(n, ast.Return)]
    exits_in_loop = [n for n in ast.walk(loop) if isinstance(n, (ast.Break, ast.Return))
                     and not any(isinstance(p_, (ast.FunctionDef, ast.Lambda)) and p_ is not loop for p_ in _ancestors_within(n, loop))]
    if not (len(rets) == 1 and rets[0] in post and not exits_in_loop):
        raise AnalysisError(R, "product_by_order has an exit other than one `return` after the complete loop; "
                               "the splitting enumeration cannot be certified")
    acc = norm(rets[0].value)
    init = [s for s in pre if isinstance(s, ast.Assign) and norm(s.targets[0]) == acc]
    rep.check(len(init) == 1 and norm(init[0].value) == "zero", R, "series::product_by_order the sum starts from the `zero` sentinel",
              norm(init[0]) if init else "missing", loc(f))
    # -- index split ------------------------------------------------------------------------------------------
    unpack = [s for s in pre if isinstance(s, ast.Assign) and isinstance(s.targets[0], ast.Tuple) and norm(s.value) == "index"]
    if len(unpack) != 1:
        raise AnalysisError(R, "cannot find `start, end, *orders = index`")
    items = tuple_items(unpack[0].targets[0])
    if not (items and [k for k, _ in items] == ["n", "n", "*"]):
        rep.fail(R, f"series::product_by_order unpack `{norm(unpack[0])}`",
                 "the index must split into two block indices and a uniform tail of orders", loc(unpack[0]))
        return
    start, end, orders = (v for _, v in items)
    rep.ok(R, "series::product_by_order index split", f"{start}, {end}, *{orders} = index", loc(unpack[0]))
    env0 = run_block([s for s in pre if s is not unpack[0]])
    env0.pop(acc, None)
    # -- loop header --------------------------------------------------------------------------------------------
    top_loop = loop
    nest = [loop]
    while len(nest[-1].body) == 1 and isinstance(nest[-1].body[0], ast.For) and not nest[-1].body[0].orelse:
        nest.append(nest[-1].body[0])
    if len(nest) == 1:
        titems = tuple_items(loop.target)
        if not (titems and [k for k, _ in titems] == ["n", "*"]):
            raise AnalysisError(R, f"loop target `{norm(loop.target)}` is not (middle, *orders_1st)")
        middle, o1name = titems[0][1], titems[1][1]
        it = resolved(loop.iter, env0)
        if not (isinstance(it, ast.Call) and call_name(it) in ("product", "itertools.product") and len(it.args) == 2
                and isinstance(it.args[1], ast.Starred) and isinstance(it.args[1].value, (ast.GeneratorExp, ast.ListComp))):
            raise AnalysisError(R, f"loop iterator `{norm(it)[:80]}` is not product(range(.), *(range(.) for . in orders))")
        mid, box = it.args[0], it.args[1].value
    elif len(nest) == 2 and all(isinstance(l_.target, ast.Name) for l_ in nest):
        # the same domain as a nest: one loop over the intermediate block, one over the box of first-factor orders
        its = [resolved(l_.iter, env0) for l_ in nest]
        roles = {}
        for l_, it_ in zip(nest, its):
            if isinstance(it_, ast.Call) and call_name(it_) == "range":
                roles["mid"] = (l_, it_)
            elif isinstance(it_, ast.Call) and call_name(it_) in ("product", "itertools.product") and len(it_.args) == 1 \
                    and isinstance(it_.args[0], ast.Starred) and isinstance(it_.args[0].value, (ast.GeneratorExp, ast.ListComp)):
                roles["box"] = (l_, it_)
        if set(roles) != {"mid", "box"}:
            raise AnalysisError(R, f"loop nest over `{norm(its[0])[:50]}` / `{norm(its[1])[:50]}` is not range(.) x product(*(range(.) for . in orders))")
        middle, o1name = roles["mid"][0].target.id, roles["box"][0].target.id
        mid, box = roles["mid"][1], roles["box"][1].args[0].value
        loop = nest[-1]
    else:
        raise AnalysisError(R, f"loop nest of depth {len(nest)} not understood")
    if True:
        class _It:  # the rest of the rule reads `it.args[1].value`
            pass
        it = _It()
        it.args = [mid, type("S", (), {"value": box})()]
    ok = isinstance(mid, ast.Call) and call_name(mid) == "range" and len(mid.args) == 1 and norm(mid.args[0]) in ("first.shape[1]", "second.shape[0]")
    rep.check(ok, R, "series::product_by_order E2.2 intermediate blocks", f"middle ranges over `{norm(mid)}`", loc(loop))
    gen = it.args[1].value
    g0 = gen.generators[0]
    if not (len(gen.generators) == 1 and not g0.ifs and isinstance(g0.target, ast.Name) and norm(g0.iter) == orders):
        rep.fail(R, f"series::product_by_order E2.2 order box iterates `{norm(g0.iter)}`",
                 "one range per order component, uniformly over all components", loc(loop))
    else:
        iv = range_interval(gen.elt, g0.target.id)
        rep.check(iv == ((0, 0), (1, 0)), R, "series::product_by_order E2.2 order box [0, n_k] per component",
                  f"`{norm(gen.elt)}` gives interval {iv} (lo, hi as (a, b) of a*n_k + b); required lo=0, hi=n_k", loc(loop))

    # -- paths through the loop body ----------------------------------------------------------------------------------
    def is_o1(e):
        return norm(_strip_tuple(e)) == o1name

    def classify_compare(n):
        """-> ('order', rel-of-o1-vs-o2-when-true set) | ('diag', bool) | None"""
        if not (isinstance(n, ast.Compare) and len(n.ops) == 1):
            return None
        l, r, op = n.left, n.comparators[0], n.ops[0]
        if {norm(l), norm(r)} == {start, end} and isinstance(op, (ast.Eq, ast.NotEq)):
            return ("diag", isinstance(op, ast.Eq))
        swap = None
        if is_o1(l) and _is_complement(r, l, orders):
            swap = False
        elif is_o1(r) and _is_complement(l, r, orders):
            swap = True
        if swap is None:
            return None
        rels = {ast.Lt: {"<"}, ast.LtE: {"<", "="}, ast.Gt: {">"}, ast.GtE: {">", "="}, ast.Eq: {"="}, ast.NotEq: {"<", ">"}}.get(type(op))
        if rels is None:
            return None
        if swap:
            rels = {{"<": ">", ">": "<", "=": "="}[x] for x in rels}
        return ("order", rels)

    def presence_atom(n):
        if isinstance(n, ast.Compare) and len(n.ops) == 1 and isinstance(n.ops[0], (ast.In, ast.NotIn)) and norm(n.comparators[0]) in ("first", "second"):
            return norm(n.comparators[0]), isinstance(n.ops[0], ast.In), n.left
        return None

    def zero_atom(n):
        """(name := X[idx]) is zero  /  X[idx] is zero -> ('first'|'second', load)"""
        if isinstance(n, ast.Compare) and len(n.ops) == 1 and isinstance(n.ops[0], (ast.Is, ast.IsNot)) and norm(n.comparators[0]) == "zero":
            v = n.left.value if isinstance(n.left, ast.NamedExpr) else n.left
            if isinstance(v, ast.Subscript) and norm(v.value) in ("first", "second"):
                return norm(v.value), isinstance(n.ops[0], ast.Is), v
        return None

    n_paths = 0
    fails = set()
    unknown = set()
    counts_seen = {}  # environment -> [(count, required, node, undecided conditions on the path)]
    wiring_seen = {"first": set(), "second": set()}
    for herm, diag, ordering in iproduct((False, True), (False, True), ("<", "=", ">")):
        def atom(n):
            if isinstance(n, ast.Name) and n.id == "hermitian":
                return herm
            if isinstance(n, ast.Call) and call_name(n) == "bool" and len(n.args) == 1:
                return eval_bool(n.args[0], atom)
            c = classify_compare(n)
            if c is None:
                return None
            if c[0] == "diag":
                return diag == c[1]
            return ordering in c[1]
        heff = herm and diag
        want = (1, 1) if (heff and ordering == "<") else (0, 0) if (heff and ordering == ">") else (1, 0)
        for o in outcomes(loop.body, scope, env=dict(env0), atom=atom, fold_ifs=False):
            n_paths += 1
            if o.kind not in ("fall", "continue"):
                raise AnalysisError(R, f"loop body path ends with {o.kind}")
            # in-place accumulation
            for ev in o.events:
                if isinstance(ev, ast.AugAssign) and norm(ev.target) == acc:
                    fails.add((f"series::product_by_order accumulation `{norm(ev)}` is in place",
                               "in-place accumulation mutates the first term (cached data: `zero + term` is `term` itself)", ev))
            # accumulated summands on this path
            plain = dag = 0
            term_txt = None
            if acc in o.env:
                parts = []
                def flat(e):
                    if isinstance(e, ast.BinOp) and isinstance(e.op, ast.Add):
                        flat(e.left); flat(e.right)
                    else:
                        parts.append(e)
                flat(o.env[acc])
                if [norm(p) for p in parts].count(acc) != 1:
                    raise AnalysisError(R, f"unrecognised accumulation `{norm(o.env[acc])[:80]}`")
                for p in parts:
                    if norm(p) == acc:
                        continue
                    if isinstance(p, ast.Call) and call_name(p) == "Dagger" and len(p.args) == 1:
                        dag += 1
                        dtxt = norm(p.args[0])
                        if term_txt is not None and dtxt != term_txt:
                            raise AnalysisError(R, "the mirrored term is not the adjoint of the accumulated term")
                    else:
                        plain += 1
                        term_txt = norm(p)
            # which free conditions decided this path?
            skipped_free = False
            free_conds = []
            both_present = False
            present = {"first": False, "second": False}
            zero_checked = {"first": False, "second": False}
            def see_loads(expr, at):
                loads = [n for n in ast.walk(expr) if isinstance(n, ast.Subscript) and isinstance(n.ctx, ast.Load)
                         and norm(n.value) in ("first", "second")]
                if loads and not all(present.values()):
                    fails.add((f"series::product_by_order E2.4 `{norm(loads[0])[:60]}` is requested before both factors are known to be present",
                               "a factor element may only be requested when the complementary element of the other factor is present", at))
                for ld in loads:
                    wiring_seen[norm(ld.value)].add(norm(ld.slice))

            for kind, test, pol in o.seq:
                if kind != "cond":
                    if pol is not None:
                        see_loads(pol, test)
                    continue
                t = canon(test)
                v_known = eval_bool(t, atom)
                atoms = bool_atoms(t)
                pres = [presence_atom(a) for a in atoms]
                zs = [zero_atom(a) for a in atoms]
                see_loads(t, test)
                if any(pres):
                    # which factors does (test == pol) imply to be present?
                    implied = {"first": True, "second": True}
                    for vf, vs in iproduct((False, True), repeat=2):
                        def patom(n):
                            p = presence_atom(n)
                            if p is None:
                                return None
                            val = vf if p[0] == "first" else vs
                            return val if p[1] else not val
                        if eval_bool(t, patom) in (pol, None):
                            if not vf:
                                implied["first"] = False
                            if not vs:
                                implied["second"] = False
                    for w in implied:
                        if implied[w] and any(p and p[0] == w for p in pres):
                            present[w] = True
                    both_present = all(present.values())
                    for p in pres:
                        if p:
                            wiring_seen[p[0]].add(norm(p[2]))
                    if v_known is None and o.kind == "continue" and test is o.conds[-1][0]:
                        skipped_free = True
                    continue
                if any(zs):
                    # evaluate which loads are known non-zero on this path
                    for which in ("first", "second"):
                        if any(z and z[0] == which for z in zs):
                            ok_nz = True
                            for vf, vs in iproduct((False, True), repeat=2):
                                def zatom(n):
                                    z = zero_atom(n)
                                    if z is None:
                                        return None
                                    val = vf if z[0] == "first" else vs  # val: element IS zero
                                    return val if z[1] else not val
                                iszero = vf if which == "first" else vs
                                if eval_bool(t, zatom) == pol and iszero:
                                    ok_nz = False
                            if ok_nz:
                                zero_checked[which] = True
                    if o.kind == "continue" and test is o.conds[-1][0]:
                        skipped_free = True
                    continue
                if v_known is None and o.kind == "continue" and test is o.conds[-1][0]:
                    unknown.add(norm(test)[:90])
                    skipped_free = True
                elif v_known is None:
                    free_conds.append(norm(test)[:90])
            env_txt = f"hermitian={herm} start==end:{diag} orders_1st{ordering}orders_2nd"
            if skipped_free:
                if (plain, dag) != (0, 0):
                    fails.add((f"series::product_by_order E2.3 {env_txt}: an absent/zero term is skipped after accumulating", "", o.node))
                continue
            counts_seen.setdefault(env_txt, []).append(((plain, dag), want, o.node, tuple(free_conds)))
            if plain and not (zero_checked["first"] and zero_checked["second"]):
                fails.add(("series::product_by_order sentinel: a term is accumulated without both factors being tested against `zero`",
                           f"zero-tested: {zero_checked}", o.node))
    for env_txt, seen_ in counts_seen.items():
        kinds = {c for c, _w, _n, _f in seen_}
        if len(kinds) > 1:
            # paths of one environment that differ only in conditions the case grid does not decide give different counts: which one
            # applies depends on a condition that is not understood
            free = sorted({f_ for _c, _w, _n, fs in seen_ for f_ in fs})
            unknown.add(free[0] if free else f"(paths of {env_txt} disagree)")
            continue
        (plain, dag), want, node, _f = seen_[0]
        if (plain, dag) != want:
            fails.add((f"series::product_by_order E2.3 multiplicity {env_txt}: contributes (term, adjoint) = {(plain, dag)}, required {want}",
                       "Hermitian half-sum: pairs (o1<o2) count term + adjoint, o1=o2 once, o1>o2 skipped; non-Hermitian or "
                       "off-diagonal blocks: every splitting exactly once", node))
    for key, detail, node in sorted(fails, key=lambda x: x[0]):
        rep.fail(R, key, detail, loc(node) if node is not None else loc(loop))
    if not any(k.startswith("series::product_by_order E2.3") for k, _d, _n in fails):
        rep.ok(R, "series::product_by_order E2.3 multiplicity table",
               f"12 environments x all resolved loop-body paths ({n_paths}) give the required (term, adjoint) counts", loc(loop))
    if not any("E2.4" in k for k, _d, _n in fails):
        rep.ok(R, "series::product_by_order E2.4 factors are requested only after both index tuples are known to be present", "", loc(loop))
    if not any("sentinel" in k for k, _d, _n in fails):
        rep.ok(R, "series::product_by_order sentinel: a zero factor skips the term", "both loads are tested against `zero` on every accumulating path", loc(loop))
    # -- index wiring (resolved) ------------------------------------------------------------------------------------------
    for which, texts in wiring_seen.items():
        if not texts:
            raise AnalysisError(R, f"no load / presence test of `{which}` found")
        for t in sorted(texts):
            e = ast.parse(t, mode="eval").body
            ok = False
            if isinstance(e, ast.Tuple) and len(e.elts) == 3 and isinstance(e.elts[2], ast.Starred):
                a, b, c = norm(e.elts[0]), norm(e.elts[1]), e.elts[2].value
                if which == "first":
                    ok = (a, b) == (start, middle) and is_o1(c)
                else:
                    o1expr = ast.Name(id=o1name, ctx=ast.Load())
                    ok = (a, b) == (middle, end) and _is_complement(c, o1expr, orders)
            rep.check(ok, R, f"series::product_by_order E2.2 `{which}[...]` index wiring",
                      f"index `{t[:90]}`; required ({start}, {middle}, *orders_1st) for first, ({middle}, {end}, *(orders - orders_1st)) for second",
                      loc(loop))
    if unknown:
        raise AnalysisError(R, f"loop body branches on a condition about the splitting that is not understood: `{sorted(unknown)[0]}`")
    # -- operator application order ---------------------------------------------------------------------------------------------
    _operator_order(rep, repo, f, loop, scope, env0, acc)


def _operator_order(rep, repo, f, loop, scope, env0, acc):
    loc = lambda n: repo.loc("series", n)
    seen = set()
    for o in outcomes(loop.body, scope, env=dict(env0)):
        if acc not in o.env:
            continue
        from .sem import fold_known
        for n in ast.walk(fold_known(o.env[acc], o.conds)):
            if isinstance(n, ast.Call) and any(isinstance(x, ast.Name) and x.id == "operator" for x in ast.walk(n.func)):
                seen.add(norm(n))
                args = n.args
                ok, detail = False, norm(n)[:120]
                def factor_pair(lc):
                    """[v for v in (F, S) if v is not one] -> (F, S) texts"""
                    if isinstance(lc, ast.ListComp) and len(lc.generators) == 1 and isinstance(lc.generators[0].iter, ast.Tuple) \
                            and len(lc.generators[0].iter.elts) == 2 and norm(lc.elt) == norm(lc.generators[0].target) \
                            and len(lc.generators[0].ifs) == 1 and norm(lc.generators[0].ifs[0]) == f"{norm(lc.elt)} is not one":
                        return [x for x in lc.generators[0].iter.elts]
                    return None
                pair = None
                if len(args) == 1 and isinstance(args[0], ast.Starred):
                    pair = factor_pair(args[0].value)
                elif len(args) == 2 and all(isinstance(a, ast.Subscript) for a in args) and [norm(a.slice) for a in args] == ["0", "1"] \
                        and norm(args[0].value) == norm(args[1].value):
                    pair = factor_pair(args[0].value)
                elif len(args) == 2:
                    pair = list(args)
                if pair is not None:
                    def base(e):
                        return norm(e.value) if isinstance(e, ast.Subscript) else None
                    ok = [base(p) for p in pair] == ["first", "second"]
                    detail = f"operator applied to ({norm(pair[0])[:40]}, {norm(pair[1])[:40]})"
                rep.check(ok, R, "series::product_by_order the operator multiplies the first-factor value by the second-factor value",
                          detail + " (the identity sentinel `one` is filtered, order first then second)", loc(loop))
                break
    rep.floor(R, "operator(...) applications", len(seen), 1)


# ---------------------------------------------------------------------------
# Hermitian fill of hand-written evals (resolved paths)
# ---------------------------------------------------------------------------

RF = "E2.adjoint_fill"


def _index_rel(n):
    """Compare of index[0] with index[1] -> set of relations (of index[0] vs index[1]) under which it is true."""
    if not (isinstance(n, ast.Compare) and len(n.ops) == 1):
        return None
    l, r = norm(n.left), norm(n.comparators[0])
    if {l, r} != {"index[0]", "index[1]"}:
        return None
    rels = {ast.Lt: {"<"}, ast.LtE: {"<", "="}, ast.Gt: {">"}, ast.GtE: {">", "="}, ast.Eq: {"="}, ast.NotEq: {"<", ">"}}.get(type(n.ops[0]))
    if rels is None:
        return None
    if l == "index[1]":
        rels = {{"<": ">", ">": "<", "=": "="}[x] for x in rels}
    return rels


def _is_swapped(sl) -> bool:
    if not (isinstance(sl, ast.Tuple) and len(sl.elts) == 3 and isinstance(sl.elts[2], ast.Starred)):
        return False
    a, b, c = norm(sl.elts[0]), norm(sl.elts[1]), _strip_tuple(sl.elts[2].value)
    return (a, b) == ("index[1]", "index[0]") and norm(c) == "index[2:]"


def eval_closures_of(parent: ast.FunctionDef):
    """Nested defs of `parent` that are installed as the eval of a series (`S.eval = f` or `BlockSeries(eval=f, ...)`), in source order."""
    from .core import nested_defs
    out = []
    for d in nested_defs(parent):
        if _series_of_eval(parent, d):
            out.append(d)
    return out


def _series_of_eval(parent: ast.FunctionDef, d: ast.FunctionDef) -> set:
    """names S such that `S.eval = d` or `S = BlockSeries(eval=d, ...)` in the enclosing function."""
    out = set()
    for n in own_nodes(parent):
        if isinstance(n, ast.Assign) and isinstance(n.value, ast.Name) and n.value.id == d.name:
            for t in n.targets:
                if isinstance(t, ast.Attribute) and t.attr == "eval" and isinstance(t.value, ast.Name):
                    out.add(t.value.id)
        if isinstance(n, ast.Assign) and isinstance(n.value, ast.Call) and call_name(n.value) == "BlockSeries" \
                and any(k.arg == "eval" and norm(k.value) == d.name for k in n.value.keywords):
            out |= {t.id for t in n.targets if isinstance(t, ast.Name)}
    return out


def _hermiticity_evidence(repo: Repo, call: ast.Call):
    """For a call of a module-level package function P(value, ...): what does P compare its first parameter with?
    -> ('adjoint' | 'transpose', function name, witness text) or None when P is unknown / shows neither."""
    name = call.func.id if isinstance(call.func, ast.Name) else (call.func.attr if isinstance(call.func, ast.Attribute) else None)
    if name is None:
        return None
    fns = [n for t in repo.trees.values() for n in t.body if isinstance(n, ast.FunctionDef) and n.name == name]
    if len(fns) != 1 or not fns[0].args.args:
        return None
    a = fns[0].args.args[0].arg
    adj = {f"{a}.conj().T", f"{a}.T.conj()", f"Dagger({a})", f"{a}.H", f"{a}.getH()", f"np.conj({a}).T", f"np.conj({a}.T)", f"{a}.conjugate().T",
           f"{a}.T.conjugate()", f"{a}.adjoint()"}
    tr = {f"{a}.T", f"{a}.transpose()", f"np.transpose({a})"}
    seen_adj = seen_tr = None
    for n in ast.walk(fns[0]):
        t = norm(n) if isinstance(n, ast.expr) else None
        if t in adj:
            seen_adj = t
        elif t in tr:
            par = getattr(n, "_parent", None)
            # `.T` that is immediately conjugated is part of an adjoint, not a bare transpose
            if isinstance(par, ast.Attribute) and par.attr in ("conj", "conjugate"):
                continue
            if isinstance(par, ast.Call) and norm(par.func) in ("np.conj", "np.conjugate"):
                continue
            seen_tr = t
    if seen_tr and not seen_adj:
        return ("transpose", name, seen_tr)
    if seen_adj and not seen_tr:
        return ("adjoint", name, seen_adj)
    return None


def rule_adjoint_fill(rep: Report, repo: Repo):
    from .core import nested_defs
    from .e2 import _ordinal, adjoint_fill_compiler

    sites = []
    cdp = repo.find("series::cauchy_dot_product", RF)
    for k_, d in enumerate(eval_closures_of(cdp)):
        sites.append(("series", f"series::cauchy_dot_product::eval@{k_}", d, cdp))
    otb = repo.find("block_diagonalization::operator_to_BlockSeries", RF)
    for d in nested_defs(otb):
        if d.name == "op_eval":
            sites.append(("block_diagonalization", "block_diagonalization::operator_to_BlockSeries::op_eval", d, otb))
    rep.floor(RF, "hand-written eval closures that may fill by Hermiticity", len(sites), 1)
    for mod, q, d, parent in sites:
        if not (d.args.vararg and d.args.vararg.arg == "index" and not d.args.args):
            raise AnalysisError(RF, f"{q}: signature is not (*index)")
        owners = _series_of_eval(parent, d)
        scope = Scope(repo.trees[mod], d)
        has_flag = any(isinstance(n, ast.Name) and n.id == "hermitian" for n in ast.walk(d))
        n_fill = 0
        bad = set()
        undecided = []
        for herm in ((False, True) if has_flag else (True,)):
            for rel in "<=>":
                def atom(n):
                    if isinstance(n, ast.Name) and n.id == "hermitian":
                        return herm
                    r = _index_rel(n)
                    return None if r is None else (rel in r)
                for o in outcomes(d.body, scope, env={}, atom=atom, expand=False):
                    if o.kind != "return" or o.value is None:
                        continue
                    daggers = [n for n in ast.walk(o.value) if isinstance(n, ast.Call) and call_name(n) == "Dagger"]
                    selfref = [n for n in ast.walk(o.value) if isinstance(n, ast.Subscript) and isinstance(n.value, ast.Name)
                               and n.value.id in owners]
                    if not daggers and not selfref:
                        continue
                    v = o.value
                    form = (isinstance(v, ast.Call) and call_name(v) == "Dagger" and len(v.args) == 1
                            and isinstance(v.args[0], ast.Subscript) and isinstance(v.args[0].value, ast.Name))
                    if not form and selfref:
                        bad.add((f"{q} fill value `{norm(v)[:90]}`",
                                 "an element taken from the series itself must be Dagger(S[(index[1], index[0], *index[2:])])", o.node))
                        continue
                    if not form:
                        raise AnalysisError(RF, f"{q}: adjoint in a return value of unrecognised form `{norm(v)[:80]}`")
                    sub = v.args[0]
                    if not (sub.value.id in owners and _is_swapped(sub.slice)):
                        bad.add((f"{q} fill value `{norm(v)[:90]}`",
                                 f"lower block = Dagger(upper block of the same series at (index[1], index[0], same orders)); "
                                 f"series whose eval this is: {sorted(owners)}", o.node))
                        continue
                    n_fill += 1
                    if not (rel == ">" and herm):
                        from .paths import eval_bool as _eb
                        free = [t for t, _p in o.conds if _eb(t, atom) is None]
                        if rel == ">" and free:
                            # a fill of a lower block under a further condition (e.g. "this term is itself Hermitian"): decided only
                            # when that condition is a package predicate whose body shows what it compares the value with
                            verdicts = [_hermiticity_evidence(repo, c) for t in free for c in ast.walk(t) if isinstance(c, ast.Call)]
                            wrong = [v for v in verdicts if v and v[0] == "transpose"]
                            if wrong:
                                bad.add((f"{q} fill condition: a lower block is filled by the adjoint when `{wrong[0][1]}` holds, but that predicate "
                                         f"compares the value with its TRANSPOSE (`{wrong[0][2]}`)",
                                         "a complex symmetric term passes the test and its lower block is replaced by the adjoint of the upper one", o.node))
                                continue
                            undecided.append(f"{q}: the adjoint fill is taken for hermitian={herm} under a condition that is not understood: "
                                             f"`{norm(free[0])[:70]}`")
                            continue
                        bad.add((f"{q} fill condition: the adjoint fill is taken for index[0] {rel} index[1], hermitian={herm}",
                                 "the adjoint fill applies to strictly lower blocks of a Hermitian series only (index[0] > index[1])", o.node))
        for key, detail, node in sorted(bad, key=lambda x: x[0]):
            rep.fail(RF, key, detail, repo.loc(mod, node))
        if undecided and not bad:
            raise AnalysisError(RF, undecided[0])
        if not bad:
            rep.ok(RF, f"{q} adjoint fill", f"{n_fill} fill path(s): taken only for index[0] > index[1] under hermitian, value "
                   f"Dagger(S[(index[1], index[0], *index[2:])]) with S the series being defined" if n_fill else
                   "no adjoint fill on any path (lower blocks are computed directly)", repo.loc(mod, d))
    adjoint_fill_compiler(rep, repo)


# ---------------------------------------------------------------------------
# cauchy_dot_product wiring (resolved)
# ---------------------------------------------------------------------------

RC = "E2.cauchy"


def _const_eval(test, subst: dict):
    """Evaluate a comparison after substituting sub-expressions (by text) with integers; None if not closed."""
    from .resolve import clone

    class T(ast.NodeTransformer):
        def generic_visit(self, node):
            if isinstance(node, ast.expr) and norm(node) in subst:
                return ast.Constant(value=subst[norm(node)])
            return super().generic_visit(node)

    t = T().visit(clone(test))
    for n in ast.walk(t):
        if not isinstance(n, (ast.Compare, ast.BoolOp, ast.UnaryOp, ast.Constant, ast.cmpop, ast.boolop, ast.unaryop, ast.BinOp,
                              ast.operator, ast.expr_context)):
            return None
    try:
        return bool(eval(compile(ast.fix_missing_locations(ast.Expression(body=t)), "<const>", "eval"), {"__builtins__": {}}))
    except Exception:
        return None


def _int_lit(e):
    if isinstance(e, ast.Constant) and isinstance(e.value, int) and not isinstance(e.value, bool):
        return e.value
    if isinstance(e, ast.UnaryOp) and isinstance(e.op, ast.USub) and isinstance(e.operand, ast.Constant) and isinstance(e.operand.value, int):
        return -e.operand.value
    return None


def default_operator(fn: ast.FunctionDef):
    """The value `operator` takes when it was None, from the recognised defaulting idioms; None if no idiom found."""
    for s in fn.body:
        if isinstance(s, ast.If) and not s.orelse and norm(canon(s.test)) == "operator is None" and len(s.body) == 1 \
                and isinstance(s.body[0], ast.Assign) and norm(s.body[0].targets[0]) == "operator":
            return norm(s.body[0].value)
        if isinstance(s, ast.Assign) and norm(s.targets[0]) == "operator" and isinstance(s.value, ast.IfExp):
            t = norm(canon(s.value.test))
            if t == "operator is None" and norm(s.value.orelse) == "operator":
                return norm(s.value.body)
            if t == "operator is not None" and norm(s.value.body) == "operator":
                return norm(s.value.orelse)
    return None


def rule_cauchy_wiring(rep: Report, repo: Repo):
    from .core import nested_defs
    from .sem import bind_args

    f = repo.find("series::cauchy_dot_product", RC)
    pbo = repo.find("series::product_by_order", RC)
    loc = lambda n: repo.loc("series", n)
    if not (f.args.vararg and f.args.vararg.arg == "series" and [a.arg for a in f.args.kwonlyargs] == ["operator", "hermitian"]):
        raise AnalysisError(RC, "cauchy_dot_product signature is not (*series, operator, hermitian)")
    # -- the association branch ------------------------------------------------------------------------------------
    branch = [s for s in f.body if isinstance(s, ast.If) and any(norm(n) == "len(series)" for n in ast.walk(s.test))]
    if len(branch) != 1:
        raise AnalysisError(RC, "cannot find the branch on len(series)")
    br = branch[0]
    vals = {k: _const_eval(br.test, {"len(series)": k}) for k in (2, 3, 4, 7)}
    if None in vals.values():
        raise AnalysisError(RC, f"association threshold `{norm(br.test)}` is not a closed comparison of len(series)")
    rep.check(vals == {2: False, 3: True, 4: True, 7: True}, RC, "series::cauchy_dot_product association threshold",
              f"`{norm(br.test)}` is {vals} for len(series) = 2, 3, 4, 7; the recursive branch is for more than two factors", loc(br))
    scope = Scope(repo.trees["series"], f)
    n_ret = 0
    for herm in (False, True):
        atom = lambda n, herm=herm: herm if (isinstance(n, ast.Name) and n.id == "hermitian") else None
        for o in outcomes(br.body, scope, env={}, atom=atom, expand=False):
            if o.kind != "return":
                if o.kind == "fall":
                    rep.fail(RC, "series::cauchy_dot_product >2 factors: a path falls through to the two-factor code", "", loc(br))
                continue
            n_ret += 1
            v = o.value
            # the returned name was rebound through env: v is the resolved nested call
            if not (isinstance(v, ast.Call) and call_name(v) == "cauchy_dot_product"):
                raise AnalysisError(RC, f">2 branch returns `{norm(v)[:80]}`")
            outer = v
            nested = [outer]

            def factors(call, N):
                """flattened factor positions of a (nested) cauchy_dot_product call for N series; None if a reference is not
                understood; every call must take at least 2 and fewer than N factors (the recursion terminates)"""
                out, count = [], 0
                for a in call.args:
                    if isinstance(a, ast.Call) and call_name(a) == "cauchy_dot_product":
                        if a not in nested:
                            nested.append(a)
                        sub = factors(a, N)
                        if sub is None:
                            return None
                        out += sub
                        count += 1
                    elif isinstance(a, ast.Starred) and isinstance(a.value, ast.Subscript) and norm(a.value.value) == "series" \
                            and isinstance(a.value.slice, ast.Slice) and a.value.slice.step is None:
                        lo = 0 if a.value.slice.lower is None else _int_lit(a.value.slice.lower)
                        hi = N if a.value.slice.upper is None else _int_lit(a.value.slice.upper)
                        if lo is None or hi is None:
                            return None
                        r = list(range(N))[lo:hi]
                        out += r
                        count += len(r)
                    elif isinstance(a, ast.Subscript) and norm(a.value) == "series" and _int_lit(a.slice) is not None:
                        out.append(list(range(N))[_int_lit(a.slice)])
                        count += 1
                    else:
                        return None
                if not 2 <= count < N:
                    return [-1]
                return out
            grid = {N: factors(outer, N) for N in (3, 4, 5, 8)}
            if any(g is None for g in grid.values()):
                raise AnalysisError(RC, f">2 branch: factor references in `{norm(v)[:100]}` not understood")
            ok = all(g == list(range(N)) for N, g in grid.items())
            inner = nested[1] if len(nested) > 1 else None
            ok = ok and inner is not None
            rep.check(bool(ok), RC, "series::cauchy_dot_product >2 factors: (A.B).rest covers all factors in order", norm(v)[:140], loc(o.node))
            if not ok:
                continue
            kws = [{k.arg: norm(k.value) for k in c.keywords} for c in nested]
            rep.check(all(k.get("operator") == "operator" for k in kws), RC,
                      "series::cauchy_dot_product >2 factors: same operator passed down", str(kws), loc(o.node))
            rep.check(all(k.get("hermitian", "False") == "False" for k in kws), RC,
                      "series::cauchy_dot_product >2 factors: partial products are not declared hermitian",
                      "only the full product carries the Hermitian shortcut (via the fill wrapper)", loc(o.node))
    rep.floor(RC, "returns of the association branch", n_ret, 2)
    # -- two factors -----------------------------------------------------------------------------------------------
    rest = f.body[f.body.index(br) + 1:]
    raises = []
    ret_vals = []
    for o in outcomes(rest, scope, env={}, expand=False):
        if o.kind == "raise":
            raises.append([a for t, p in o.conds[-1:] for a in bool_atoms(canon(t))])
        elif o.kind == "return":
            ret_vals.append(o)
        else:
            raise AnalysisError(RC, "two-factor code has a path without return")

    def rejects(a, b):
        for atoms in raises:
            for n in atoms:
                if isinstance(n, ast.Compare) and len(n.ops) == 1 and isinstance(n.ops[0], ast.NotEq) \
                        and {norm(n.left), norm(n.comparators[0])} == {a, b}:
                    return True
        return False
    rep.check(rejects("series[0].n_infinite", "series[1].n_infinite"), RC, "series::cauchy_dot_product rejects incompatible n_infinite", "", loc(f))
    rep.check(rejects("series[0].shape[1]", "series[1].shape[0]"), RC, "series::cauchy_dot_product rejects incompatible inner blocks", "", loc(f))
    if not ret_vals:
        raise AnalysisError(RC, "two-factor code has no returning path")
    for o in ret_vals:
        ctor = o.value
        if not (isinstance(ctor, ast.Call) and call_name(ctor) == "BlockSeries"):
            raise AnalysisError(RC, f"two-factor code returns `{norm(ctor)[:80]}`")
        kw = {k.arg: norm(k.value) for k in ctor.keywords}
        ok = kw.get("shape") == "(series[0].shape[0], series[1].shape[1])" and kw.get("n_infinite") in ("series[0].n_infinite", "series[1].n_infinite")
        rep.check(ok, RC, "series::cauchy_dot_product result shape (first.shape[0], second.shape[1])",
                  str({k: kw.get(k) for k in ("shape", "n_infinite")}), loc(f))
        if kw.get("data", "None") != "None":
            rep.fail(RC, "series::cauchy_dot_product the product series starts with data", kw.get("data"), loc(f))
    # eval closure of the two-factor product
    evs = [d for d in eval_closures_of(f) if d in rest]
    if len(evs) != 1:
        raise AnalysisError(RC, "two-factor eval closure not found")
    fwd = []
    for oo in outcomes(evs[0].body, scope, env={}, expand=False):
        if oo.kind == "return" and isinstance(oo.value, ast.Call) and call_name(oo.value) == "product_by_order":
            fwd.append(oo.value)
        elif oo.kind == "return" and any(isinstance(n, ast.Call) and call_name(n) == "product_by_order" for n in ast.walk(oo.value)):
            raise AnalysisError(RC, f"product_by_order result is post-processed: `{norm(oo.value)[:80]}`")
        elif oo.kind == "return" and isinstance(oo.value, ast.Call) and (call_name(oo.value) in ("Dagger", "adjoint") or (
                isinstance(oo.value.func, ast.Attribute) and oo.value.func.attr in ("adjoint", "conj", "conjugate"))):
            pass  # the Hermitian fill of a lower block (decided by E2.adjoint_fill)
        elif oo.kind == "return":
            # any other way out of the eval: a value that is not the Cauchy sum
            tests = [norm(t)[:70] for t, _p in oo.conds if any(isinstance(n, ast.Call) and call_name(n) == "product_by_order" for n in ast.walk(t))]
            if norm(oo.value) in ("zero", "one") and tests:
                rep.fail(RC, f"series::cauchy_dot_product eval returns the `{norm(oo.value)}` sentinel instead of the computed product when `{tests[0]}`",
                         "the product of two series has no natural scale: a sum whose entries are small in absolute terms is still the "
                         "value of the element, and the sentinel makes every later product drop it", loc(oo.node))
            else:
                raise AnalysisError(RC, f"two-factor eval returns `{norm(oo.value)[:60]}` on a path that does not forward to product_by_order: not understood")
    rep.floor(RC, "product_by_order forwarding returns", len(fwd), 1)
    dflt = default_operator(f)
    for c in fwd:
        b = bind_args(pbo, c)
        if b is None:
            raise AnalysisError(RC, f"cannot bind `{norm(c)[:80]}`")
        # the two factors, whatever the locals that hold them are called: locals that resolve to an element of `series`
        fenv = {kk: vv for kk, vv in ret_vals[0].env.items() if isinstance(vv, ast.Subscript) and norm(vv.value) == "series"}
        got = {k: norm(resolved(v, fenv)) for k, v in b.items()}
        want = {"index": "index", "first": "series[0]", "second": "series[1]", "hermitian": "hermitian"}
        ok = all(got.get(k) == v for k, v in want.items()) and got.get("operator") in ("operator", f"{dflt} if operator is None else operator")
        rep.check(ok, RC, "series::cauchy_dot_product eval forwards (index, first, second, operator, hermitian)", str(got), loc(c))
    # default operator is matmul in both functions
    for q, fn in (("series::cauchy_dot_product", f), ("series::product_by_order", pbo)):
        d = default_operator(fn if fn is pbo else _two_factor_view(f, rest))
        if d is None and fn is not pbo and default_operator(pbo) is not None and not any(
                isinstance(s_, (ast.Assign, ast.AugAssign)) and any(norm(t_) == "operator" for t_ in (s_.targets if isinstance(s_, ast.Assign) else [s_.target]))
                for s_ in ast.walk(f) if isinstance(s_, (ast.Assign, ast.AugAssign))):
            # no default of its own: `operator` (possibly None) is handed on unchanged, and product_by_order applies the default
            rep.ok(RC, f"{q} default operator is matmul", "operator is passed on as given; product_by_order defaults it", repo.loc("series", fn))
            continue
        if d is None:
            raise AnalysisError(RC, f"{q}: defaulting of `operator` not recognised")
        rep.check(d == "matmul", RC, f"{q} default operator is matmul", f"operator defaults to `{d}`", repo.loc("series", fn))


def _two_factor_view(f, rest):
    v = ast.FunctionDef(name=f.name, args=f.args, body=list(rest), decorator_list=[], returns=None)
    return v
