"""Equality of scalar (commutative, element-wise) formulas up to algebra.

The formulas a rule expects (Chebyshev coefficients, rescaling parameters, ...) can be written in many algebraically
equivalent ways.  ``same(a, b)`` translates two expression trees over the same free names into sympy expressions
(`np.sqrt`, `np.sin`, `np.cos`, `np.arccos`, `np.abs`, `np.pi`, arithmetic; `np.arange(n)` is one symbol: the operations
are element-wise) and decides ``simplify(a - b) == 0``.  No program code is run and nothing is sampled numerically.
Returns True / False, or None when an expression contains something outside this small language.
"""

from __future__ import annotations

import ast

from .core import call_name, norm

_FUNCS = {"np.sqrt": "sqrt", "np.sin": "sin", "np.cos": "cos", "np.tan": "tan", "np.arccos": "acos", "np.arcsin": "asin",
          "np.abs": "Abs", "abs": "Abs", "np.absolute": "Abs", "np.exp": "exp", "math.sqrt": "sqrt"}


def to_sympy(e: ast.AST, opaque=None):
    import sympy

    syms: dict = {}

    def sym(text):
        if text not in syms:
            syms[text] = sympy.Symbol(f"s{len(syms)}", real=True)
        return syms[text]

    def ev(n):
        if isinstance(n, ast.Constant) and isinstance(n.value, (int, float)) and not isinstance(n.value, bool):
            return sympy.nsimplify(n.value) if isinstance(n.value, float) else sympy.Integer(n.value)
        if isinstance(n, ast.Name):
            return sym(n.id)
        if isinstance(n, ast.Attribute) and norm(n) in ("np.pi", "math.pi"):
            return sympy.pi
        if isinstance(n, ast.BinOp):
            l, r = ev(n.left), ev(n.right)
            if l is None or r is None:
                return None
            if isinstance(n.op, ast.Add):
                return l + r
            if isinstance(n.op, ast.Sub):
                return l - r
            if isinstance(n.op, ast.Mult):
                return l * r
            if isinstance(n.op, ast.Div):
                return l / r
            if isinstance(n.op, ast.Pow):
                return l ** r
            return None
        if isinstance(n, ast.UnaryOp) and isinstance(n.op, ast.USub):
            v = ev(n.operand)
            return None if v is None else -v
        if isinstance(n, ast.UnaryOp) and isinstance(n.op, ast.UAdd):
            return ev(n.operand)
        if isinstance(n, ast.Call):
            name = call_name(n)
            if name in _FUNCS and len(n.args) == 1 and not n.keywords:
                v = ev(n.args[0])
                return None if v is None else getattr(sympy, _FUNCS[name])(v)
            if name == "np.arange" and len(n.args) == 1 and not n.keywords:
                return sym(norm(n))  # the vector 0..n-1: one symbol, all operations on it are element-wise
        if opaque is not None and opaque(n):
            return sym(norm(n))
        if isinstance(n, (ast.Attribute, ast.Subscript)):
            # x.shape[0], d[k]: an atom, provided nothing callable is inside
            if not any(isinstance(x, ast.Call) for x in ast.walk(n)):
                return sym(norm(n))
        return None

    return ev, syms


def same(a: ast.AST | str, b: ast.AST | str, opaque=None):
    import sympy

    if isinstance(a, str):
        a = ast.parse(a, mode="eval").body
    if isinstance(b, str):
        b = ast.parse(b, mode="eval").body
    if norm(a) == norm(b):
        return True
    ev, _syms = to_sympy(a, opaque)
    x, y = ev(a), ev(b)
    if x is None or y is None:
        return None
    d = sympy.simplify(x - y)
    if d == 0:
        return True
    d = sympy.simplify(sympy.trigsimp(sympy.together(sympy.expand(x - y))))
    return d == 0
