"""Property -> rules registry (the per-property decisions of DESIGN.md section 4)."""

from __future__ import annotations

from functools import partial

from . import e1

TB_E1 = [
    "the rewriting normaliser of sv/algebra.py (confluence re-checked on all critical triples on every run)",
    "the interpretation table of sv/e1.py (what each DSL series denotes in terms of the exact solution)",
    "existence and uniqueness of the least-action solution of unitarity + elimination + gauge (literature)",
    "ideal semantics of the DSL constructs (compilation: C09 rules; Cauchy product: C18 rules; Sylvester solver contract H0.T - T.H0 = Y: C16 rules; S/R complementarity: projection-pair rule)",
    "two-block mode: the exact Hermitian part W of U' is block diagonal (even powers of a block-off-diagonal generator)",
]

main_e1 = partial(e1.rule_e1, programs=("main",))
nh_e1 = partial(e1.rule_e1, programs=("nonhermitian",))

PROPS: dict[str, dict] = {}


def prop(pid, **kw):
    PROPS[pid] = kw


prop(
    "C01",
    level="proof",
    rules=[main_e1],
    trusted_base=TB_E1,
    explanation=(
        "Every `with` block of algorithms.py::main is read from the current source and its defining "
        "equation is discharged as a polynomial identity in a free *-algebra (atoms H_0, H'_S, H'_R, W, V; "
        "opaque selected-part operator S) in the three flag modes general/commuting/two-block. "
        "An obligation is one (mode, series, branch) identity; discharged means its normal form is 0 "
        "(or a non-zero multiple of the elimination condition for the recurrence that imposes it)."
    ),
    assumptions=["floating-point rounding is not analysed", "see trusted_base"],
)
