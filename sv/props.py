"""Property -> rules registry (the per-property decisions of DESIGN.md section 4)."""

from __future__ import annotations

from functools import partial

from . import e1, e1b, e2, e2b, e2c, e3, e4, e5, e6, e7, e7b, e8, e9, e10, e11, e12

TB_E1 = [
    "the rewriting normaliser of sv/algebra.py (confluence re-checked on all critical triples on every run)",
    "the interpretation table of sv/e1.py (what each DSL series denotes in terms of the exact solution)",
    "existence and uniqueness of the least-action solution of unitarity + elimination + gauge (literature)",
    "ideal semantics of the DSL constructs: compilation (E9 rule), Cauchy product (E2 rules), Sylvester solver "
    "contract H0.T - T.H0 = Y (E7 rules), S/R complementarity (projection-pair rule); these rules are part of the same check",
    "two-block mode: the exact Hermitian part W of U' is block diagonal (even powers of a block-off-diagonal generator)",
    "numpy / scipy / sympy operators mean what their documentation says",
]

main_e1 = partial(e1.rule_e1, programs=("main",))
nh_e1 = partial(e1.rule_e1, programs=("nonhermitian",))
wf_main = partial(e2.rule_wellfounded, programs=("main",))
wf_nh = partial(e2.rule_wellfounded, programs=("nonhermitian",))
wf_all = partial(e2.rule_wellfounded, programs=("main", "nonhermitian"))
tv_shipped = partial(e9.rule_translation, which=("main", "nonhermitian"))
diag_solver_real = partial(e7b.rule_diagonal_solver, complex_energies=False)  # Hermitian H_0: real energies
start_data_shipped = partial(e9.rule_start_data, all_programs=False)
shared_check_memo = partial(e7b.rule_shared_eigenvalue_check, divisions=False)  # C10 / C11: only the memo of checked pairs
helpers_inputs = partial(e11.rule_helpers, sections=("subspaces", "convert_if_zero", "unpack_blocks", "extract_diagonal", "is_diagonal"))  # C14
helpers_solvers = partial(e11.rule_helpers, sections=("preprocess_sylvester", "group_close", "aslinearoperator", "extract_diagonal"))  # C16
helpers_rejections = partial(e11.rule_helpers, sections=("subspaces", "preprocess_sylvester", "is_diagonal"))  # C20
lossless_series = partial(e4.rule_value_preserving, modules=("series",))  # C18
lossless_solvers = partial(e4.rule_value_preserving, modules=("block_diagonalization", "linalg", "second_quantization", "kpm"))  # C16
lossless_inputs = partial(e4.rule_value_preserving, modules=("block_diagonalization", "series"))  # C14
runtime_series = partial(e9.rule_runtime_support, compiler_helpers=False)  # C18 / C19: the series.py part only
memo_key_parsing = partial(e4.rule_memo_key, modules=("algorithm_parsing", "series"))
memo_key_nof = partial(e4.rule_memo_key, modules=("number_ordered_form", "second_quantization"))  # C08 is about that arithmetic only

# ideal DSL semantics tied to the code: shared by the algorithm-level properties
CORE = [e1b.rule_projection_pairs, e1b.rule_scope_flags, e2c.rule_product_by_order, e2c.rule_adjoint_fill, e2c.rule_cauchy_wiring,
        e4.rule_value_preserving, tv_shipped, e9.rule_runtime_support, e9.rule_exec_scope, e9.rule_adjoint_binding, start_data_shipped, e11.rule_helpers,
        # what the series H *is*: input normalisation of symbolic / list / dict Hamiltonians (Taylor coefficients, order keys)
        e2b.rule_taylor, e2b.rule_key_normalisation, e2b.rule_symbol_order, e6.rule_subspaces_from_indices,
        # `every Hamiltonian accepted by block_diagonalize` includes implicit mode: the exact (direct) implicit solver and the
        # projector it works with are part of what makes U†HU = H_tilde there.  The KPM solver is approximate (its accuracy and
        # convergence belong to C06 / C16 only), but how it is WIRED -- which vectors are projected out, which part is solved
        # exactly -- is structural: a wiring fault is an O(1) error in V, not an approximation error
        e7.rule_direct_solver, e7.rule_greens_function, e6.rule_projector, e6.rule_projector_call_sites, e8.rule_implicit_wiring,
        e7b.rule_kpm_wiring,
        # ... and operator-valued (second-quantised) Hamiltonians: the element-wise solver defines V there, including the
        # explicit anti-Hermitian completion of a fully diagonalised block that U† = W - V relies on
        e7.rule_solve_scalar, e10.rule_binary_number_cancellation,
        # a table of computed values kept between element evaluations is sound only if its key pins what the value reads
        e4.rule_memo_key,
        # the series hold references to the user's arrays and to their own stored elements: an in-place update of either
        # (a solver rescaling h_0, a helper accumulating into an element) changes H after parts of the result were derived from it
        e4.rule_no_inplace_mutation]

# C01-C04 are about Hermitian inputs: clauses of shared rules that only matter for hermitian=False are left to C05 / C14
CORE_H = [partial(r, nonhermitian=False) if r is e11.rule_helpers else r for r in CORE]

PROPS: dict[str, dict] = {}


def prop(pid, **kw):
    kw.setdefault("assumptions", [])
    kw["assumptions"] = kw["assumptions"] + [
        "floating-point rounding, KPM convergence and sympy simplification are not analysed",
        "third-party operators (numpy, scipy, sympy) behave as documented",
    ]
    PROPS[pid] = kw


prop(
    "C01", level="proof", trusted_base=TB_E1, selftest=["algorithms", "block_diagonalization"],
    rules=[main_e1, wf_main, diag_solver_real, *CORE_H],
    explanation=(
        "Every `with` block of algorithms.py::main is read from the current source and its defining equation is "
        "discharged as a polynomial identity in a free *-algebra (atoms H_0, H'_S, H'_R, W, V; opaque selected-part "
        "operator S) in the three flag modes general / commuting / two-block; one obligation = one (mode, series, branch) "
        "identity, discharged when its normal form is 0 (or a non-zero multiple of the elimination condition for the "
        "recurrence that imposes it). Further obligations tie the ideal semantics to the code: complementary diag/offdiag "
        "masks, flag meaning, orientation and zero-guard of every branch of the diagonal Sylvester solver, the Cauchy "
        "product's index arithmetic and the adjoint fills."),
)

prop(
    "C02", level="proof", trusted_base=TB_E1, selftest=["algorithms", "series", "number_ordered_form"],
    # `U† is the adjoint of U`, `H_tilde is Hermitian` are statements about what Dagger does to the values: for operator-valued
    # (second-quantised) problems that is NumberOrderedForm's adjoint / sum / negation structure
    rules=[main_e1, wf_main, diag_solver_real, *CORE_H, e10.rule_linear_structure],
    explanation=(
        "Unitarity (1+U'†)(1+U') = (1+U')(1+U'†) = 1, adj(U) = U†, Hermiticity of U†HU and of every series/product "
        "carrying a hermitian/antihermitian marker are obligations of the E1 certificate of `main`; the Hermitian "
        "half-sum multiplicity table of product_by_order (12 environments x all loop-body paths) and the index form of "
        "every adjoint fill (hand-written and generated) are decided from series.py / algorithm_parsing.py."
        " `U† is the adjoint of U` is a statement about what Dagger does to the values: every module binds Dagger to the adjoint "
        "(E9.adjoint_binding), and for operator-valued problems NumberOrderedForm's adjoint negates the powers and takes the adjoint "
        "of every coefficient (E10 linear structure)."),
)

prop(
    "C03", level="proof", trusted_base=TB_E1, selftest=["algorithms"],
    rules=[main_e1, wf_main, diag_solver_real, *CORE_H],
    explanation=(
        "Gauge obligations of the E1 certificate: the anti-Hermitian part of the interpretation of U' is V, S[V] = 0 "
        "(V has only an `offdiagonal` branch), W is Hermitian; together with the well-founded (acyclic same-order) "
        "dependency graph the DSL system has exactly one solution, which therefore is the least-action solution. "
        "The comparison against an independent reference solver is a runtime oracle and is not performed."),
)

prop(
    "C04", level="proof", trusted_base=TB_E1, selftest=["algorithms"],
    rules=[main_e1, wf_main, diag_solver_real, *CORE_H],
    explanation=(
        "Decided through its structural cause only: H_tilde = S[U†HU] with U unitary and R[U†HU] = 0 (E1 obligations "
        "for H_tilde, B, unitarity), and full diagonalisation keeps exactly the degenerate pairs (to_keep = equal_eigs). "
        "Spectral agreement of the truncation follows mathematically; the eigenvalue comparison itself is numerical "
        "and is not performed."),
)

prop(
    "C05", level="other", selftest=["algorithms"],
    rules=[nh_e1, wf_nh, e7b.rule_diagonal_solver, *CORE],
    explanation=(
        "E1 certificate of algorithms.py::nonhermitian (atoms H_0, H'_S, H'_R, U', U_inv'; rules U_inv U = U U_inv = 1, "
        "gauge S[U_inv'] = S[U']): inverse relations, gauge, Sylvester equation, elimination, B and H_tilde are "
        "discharged; the obligation X[diagonal] fails with residual [H_0, U'_S] (known finding K1), so the level is "
        "rule conformance with one recorded defect, not a proof. Coincidence with the Hermitian mode on Hermitian "
        "input is a two-run value comparison and is not decided."),
)

prop(
    "C06", level="other", selftest=["linalg", "block_diagonalization"],
    rules=[e8.rule_implicit_wiring, e6.rule_projector, e6.rule_base_state, e6.rule_projector_call_sites,
           e7.rule_direct_solver, e7.rule_greens_function, e7b.rule_diagonal_solver, e7.rule_kpm_structure, e4.rule_value_preserving,
           e11.rule_helpers],
    explanation=(
        "Only structural necessary conditions are decided (numerical equality of the implicit and explicit paths is "
        "not): the implicit block is Q.H.Q with one and the same oblique projector Q = 1 - R L† on both sides; "
        "LinearOperator dispatch is consistent between block_diagonalize, series_computation and the generated evals; "
        "both orientations of the direct solver project before and after and carry the right sign / transpose / "
        "conjugated kernels; the Green's function projects, zeroes pivots and re-projects; Q's matvec, adjoint action, "
        "adjoint, conjugate and transpose denote those of the dense matrix; the base-class state the installed SciPy "
        "reads is initialised."),
)

prop(
    "C07", level="other", selftest=["block_diagonalization", "second_quantization", "number_ordered_form", "algorithms"],
    rules=[main_e1, wf_main, e12.rule_operator_mode, e2b.rule_taylor, e7.rule_solve_scalar, e10.rule_binary_number_cancellation, e1b.rule_projection_pairs, e1b.rule_scope_flags,
           e10.rule_operator_order, e10.rule_fermion_crossing, e10.rule_shift_table, e10.rule_linear_structure, e10.rule_number_operator_power, e10.rule_operator_sort_consistency, e10.rule_placeholder_tests, e10.rule_expand_by_identity,
           e2c.rule_product_by_order, e2c.rule_cauchy_wiring, e2c.rule_adjoint_fill, tv_shipped, e9.rule_runtime_support, e9.rule_exec_scope, e9.rule_adjoint_binding, start_data_shipped,
           e11.rule_helpers, e4.rule_loop_carried_state, e4.rule_memo_key],
    explanation=(
        "Narrow claim: ONE clause of C07 is decided, the last one -- `the operator results also satisfy U†U = 1 and "
        "U†HU = H_tilde within the operator algebra`. E1's certificate of `main` is an identity of the free *-algebra, so it "
        "holds in the operator algebra once the code supplies that algebra faithfully; the rules decide the structural "
        "conditions of that: every Hamiltonian term enters by an entry-wise change of representation "
        "(NumberOrderedForm.from_expr; zero stays absent, other types are rejected) and the results leave through an "
        "entry-wise simplification of NumberOrderedForm entries only, in the order (H_tilde, U, U†) [E12]; operator problems "
        "get the operator Sylvester solver built from the energies of the same converted H [E12], whose scalar solver "
        "divides each term by the commuted energy difference with mirror-image shifts and completes diagonal entries "
        "anti-Hermitian [E7.solve_scalar]; the selection closures apply one operator mask with opposite keep flags, and "
        "filter_terms(c, True) + filter_terms(c, False) is the whole form [E1.projection, E11]; the product, adjoint and "
        "sum of NumberOrderedForm have the structure of an associative *-algebra as far as E10 decides it (operator order, "
        "fermionic crossing sets, shift table, linear structure; operator lists merged by operator identity [E10.expand]). NOT decided, and not claimed: the comparison of matrix "
        "elements between Fock states with a block diagonalization of truncated matrices (the first sentence of C07), "
        "NumberOrderedForm.from_expr on arbitrary expression trees, `_poly_simplify` and sympy simplification being value-"
        "preserving."),
    assumptions=["NumberOrderedForm.from_expr, _poly_simplify and sympy's simplify/doit are value-preserving changes of representation",
                 "the Fock-state / truncated-matrix clause of C07 is outside this check"],
)

prop(
    "C08", level="other", selftest=["number_ordered_form"],
    rules=[e10.rule_operator_order, e10.rule_fermion_crossing, e10.rule_shift_table, e10.rule_linear_structure, e10.rule_number_operator_power, e10.rule_operator_sort_consistency,
           e10.rule_placeholder_tests, e10.rule_expand_by_identity, e4.rule_loop_carried_state, memo_key_nof],
    explanation=(
        "Necessary conditions of faithfulness decided from number_ordered_form.py: (i) the order in which __mul__ "
        "applies the right operand's creation / annihilation operators equals the order as_expr denotes (extracted and "
        "compared, not fixed); (iv) the fermionic crossing sets of _multiply_op are the ones implied by that order; "
        "(ii) per syntactic path of the boson/ladder branch, the shift applied to the old coefficient and to the newly "
        "created number factors equals the table that follows from a f(N) = f(N+1) a and a a† = N+1; _multiply_expr's "
        "replacement table; (iii) adjoint / add / neg / sub structure; (v) NumberOperator._eval_power collapses N**k to N only for "
        "fermion and spin modes and integer k != 0 (grid over operator type x exponent); (vi) memo tables of the arithmetic are keyed "
        "by everything the cached value reads. Not decided: from_expr on arbitrary expression "
        "trees, non-integer powers, simplification."
        " Stored coefficients are written over placeholder symbols: a test for NumberOperator objects on one of them is reported as "
        "a dead guard [E10.placeholders]. (viii) _expand_operators, through which sums, products and masks of forms with different "
        "mode sets pass, places every power by the identity of its operator: a return path that copies the raw power tuple "
        "contiguously without a per-operator lookup and without a guard on the new operator list is reported [E10.expand]."),
)

prop(
    "C09", level="translation_validation", selftest=["algorithm_parsing", "series"],
    rules=[e9.rule_translation, e9.rule_translation_corpus, e9.rule_runtime_support, wf_all, e2c.rule_adjoint_fill, e8.rule_implicit_wiring,
           e2c.rule_cauchy_wiring, e2c.rule_product_by_order,  # declared products and their Hermiticity shortcut
           e9.rule_deletion_safe, e9.rule_exec_scope, e9.rule_adjoint_binding, e9.rule_start_data,
           # the compiled form is a function of the definition: a memo of the compiler must be keyed by what it compiles
           memo_key_parsing,
           # ... and the value of an element must not depend on what was requested before: the helpers the generated code calls and
           # the series machinery must not update the values they are handed (a running result may BE a stored element)
           partial(e4.rule_no_inplace_mutation, modules=("algorithm_parsing", "series"))],
    explanation=(
        "The repository's own _parse_algorithm is queried (subprocess, tree under analysis) for the generated "
        "series_eval ASTs of `main`, `nonhermitian` and the documented example; each is interpreted abstractly per "
        "index class {diagonal, upper, lower} x {offdiag given, not} x flag combination into a linear combination of "
        "term references and compared with a reference translation made by an independent reader of the documented "
        "grammar. The same comparison is made for a generated corpus of 42 programs that exercises every construct of the "
        "documented grammar in every branch position (nested subtractions and unary minus, divisions of groups, adjoints, "
        "nested scope functions, products, zero, both flags, markers). Deletions are only checked against two safety facts "
        "(never an input, never an output). The claim over all programs of the grammar is not decided."),
)

prop(
    "C10", level="other", selftest=["series", "block_diagonalization", "algorithm_parsing", "linalg"],
    rules=[e4.rule_no_inplace_mutation, e4.rule_closure_state, e3.rule_memo_owner, e3.rule_typestate,
           shared_check_memo, e4.rule_loop_carried_state, e4.rule_memo_key, e9.rule_deletion_safe],
    explanation=(
        "Structural cause of history independence: evals are pure and the memo is disciplined. Flow-sensitive "
        "freshness analysis over every function of the evaluation modules (in-place sinks: augmented assignment, item "
        "stores, mutating methods, out= / overwrite_* keywords) shows no in-place write reaches caller data, cached "
        "elements or returned values; functions that mutate a parameter only receive package-owned copies; the memo "
        "`_data` is touched only by its owner methods and initialised from a copy; closures that write captured state "
        "equal a reasoned table. The enumeration of request schedules itself is not performed."),
)

prop(
    "C11", level="other", selftest=["series"],
    rules=[e3.rule_typestate, e3.rule_memo_owner, e4.rule_closure_state, shared_check_memo, e3.rule_exceptions_propagate,
           e9.rule_generated_exceptions],
    explanation=(
        "Typestate of the in-flight marker on the control-flow graph (with exceptional edges) of the one function that "
        "owns it: from the store of PENDING every path to a normal or exceptional exit passes a store of the result or "
        "a removal of the key; handlers jointly cover BaseException and re-raise; the eval call is guarded by the "
        "absence test; a PENDING hit raises RuntimeError before any value is copied. No closure writes shared state "
        "before a callback (closure-state table; the checked-pairs memo is written only after the check passed)."),
)

prop(
    "C12", level="other", selftest=["series", "block_diagonalization"],
    rules=[e2b.rule_definition_time_lazy, e2b.rule_order_preserving_evals, e2c.rule_product_by_order, wf_all,
           e3.rule_typestate, e3.rule_memo_owner, tv_shipped,
           # "for any request schedule": an eval closure that records something while it runs and consults it later makes the value
           # at one order depend on which other orders were requested before
           e4.rule_closure_state],
    explanation=(
        "Dependency cone decided structurally: definition-time code subscripts a BlockSeries only at the zeroth order; "
        "every hand-written eval closure loads other series at its own orders (or a guarded lower one); "
        "product_by_order enumerates exactly the box [0, n_k] per component with complementary orders and requests a "
        "factor only if both index tuples are present; the DSL recursions are well-founded; an element is evaluated "
        "only when absent from the memo, and the memo is the only way to a term: nobody outside BlockSeries.__getitem__ calls a series' "
        "element function or aliases its memo (E3 T5/T5b); generated code never deletes an input term."),
)

prop(
    "C13", level="other", selftest=["series", "block_diagonalization"],
    rules=[e2c.rule_product_by_order, wf_all, e2b.rule_key_normalisation, e2b.rule_symbol_order, e2b.rule_order_preserving_evals, e2b.rule_taylor,
           e2c.rule_cauchy_wiring, e7b.rule_diagonal_solver, e1b.rule_projection_pairs,
           # which input term lands at which multi-order: the unpacking of block-format inputs reads the term of the requested orders
           partial(e11.rule_helpers, sections=("unpack_blocks",))],
    explanation=(
        "Narrow claim: order components are handled uniformly and split exactly (product_by_order rules), every DSL "
        "summand is a rational multiple of exactly one series/product reference under linear scope functions (element n "
        "is homogeneous of degree n); the scope functions are linear in the element: the built-in Sylvester solver returns "
        "Y (.) K on every path and the `zero` sentinel only for an absent right-hand side (no absolute threshold on a "
        "computed value), the selection closures multiply by a mask; list / symbolic keys are normalised so that the k-th perturbation maps to the "
        "k-th unit tuple and the tuple is built from the same `symbols` sequence that names the dimensions. The "
        "relations between outputs of related calls are not evaluated."),
)

prop(
    "C14", level="other", selftest=["block_diagonalization"],
    rules=[e6.rule_projector_call_sites, e6.rule_subspaces_from_indices, helpers_inputs, e2b.rule_taylor, e2b.rule_order_preserving_evals, e2b.rule_key_normalisation, e2b.rule_symbol_order,
           e5.rule_total_callbacks, e2c.rule_adjoint_fill, lossless_inputs,
           # `dense, sparse or symbolic values`: the selection closures have one element-wise branch per value type
           e1b.rule_projection_pairs,
           # an incomplete eigenbasis is completed by the complement projector: its actions are part of "the same result for every
           # way of designating the blocks"
           e6.rule_projector],
    explanation=(
        "Narrow claim: the selection closures have one element-wise branch per value type (dense, scipy.sparse, sympy); "
        "operator_to_BlockSeries returns L_i† A R_j (projector families, argument order of every "
        "ComplementProjector construction, Hermitian fill), the Taylor recurrence of symbolic input is consistent "
        "(element n = derivative / n!), normalisation layers pass orders through unchanged, keys are normalised "
        "position-wise, every eval is total over the documented value types. Equality of results across formats is a "
        "multi-run numerical relation and is not decided."),
)

prop(
    "C16", level="other", selftest=["block_diagonalization", "linalg", "second_quantization", "kpm"],
    rules=[e7b.rule_diagonal_solver, e7b.rule_shared_eigenvalue_check, e7.rule_direct_solver, e7.rule_greens_function,
           e7.rule_solve_scalar, e10.rule_binary_number_cancellation, e7.rule_kpm_structure, e6.rule_projector, lossless_solvers, helpers_solvers],
    explanation=(
        "Sibling cross-check of the solver implementations against the contract H0_i T - T H0_j = Y: orientation "
        "E_i[row] - E_j[col], positive sign and zero-guard of each of the five branches of the diagonal solver; sign / "
        "transpose / conjugated-kernel pairing and projection before and after in both orientations of the direct "
        "solver; must-pass-through of the kernel projector and pivot zeroing in direct_greens_function; mirror-image "
        "shifts and sign-invariant denominator of the second-quantised scalar solver. Not decided: KPM accuracy."),
)

prop(
    "C17", level="proof", selftest=["linalg"],
    trusted_base=[
        "the denotation evaluator sv/linden.py (words over R, L with decorations *, T, H)",
        "SciPy's documented contract: _matvec/_matmat compute A x, _rmatvec/_rmatmat compute A^H x, _adjoint/_transpose return A^H / A^T",
        "the source of the installed scipy/sparse/linalg/_interface.py is what runs",
    ],
    rules=[e6.rule_projector, e6.rule_base_state, e6.rule_projector_construction_sites,
           # `equals the matrix ... under every operator operation`, also inside composites: applying P must not modify the operand
           partial(e4.rule_no_inplace_mutation, modules=("linalg",))],
    explanation=(
        "With self = P = 1 - R L† every method of ComplementProjector is interpreted abstractly: _apply denotes P v, "
        "_apply_left denotes P† v, the objects built by _adjoint / conjugate / _transpose (both L = R and L != R) "
        "denote P†, P*, Pᵀ, every cached cross-link stores the operation its attribute names; the instance attributes "
        "the installed SciPy's LinearOperator reads are initialised by __init__; every construction site passes "
        "(right, left). One obligation per (method, mode) / cache store / base-class attribute."
        " The slot denotations are computed per path (dense / sparse operand); no function of linalg.py that is called from "
        "outside the package writes into its operand (inside a scipy composite the operand is shared with the other terms)."),
)

prop(
    "C18", level="other", selftest=["series"],
    rules=[e2c.rule_product_by_order, e2c.rule_cauchy_wiring, e2c.rule_adjoint_fill, main_e1, lossless_series, runtime_series,
           e9.rule_adjoint_binding],
    explanation=(
        "product_by_order: order box, complementary orders, index wiring (start, middle, *o1) / (middle, end, *o2), "
        "presence test dominating every load, zero-skip, multiplicity table of the Hermitian half-sum, operator "
        "application order with the `one` sentinel filtered; cauchy_dot_product: left association over all factors "
        "with the same operator and the Hermitian shortcut only on the full product, shape checks; and (E1) every "
        "product declared hermitian in the shipped algorithms has mutually adjoint factors."),
)

prop(
    "C19", level="other", selftest=["series"],
    rules=[e2b.rule_check_finite, e2b.rule_view_indexing, e3.rule_typestate, wf_all, runtime_series],
    explanation=(
        "numpy equivalence is by construction (the code indexes a real numpy trial array with the user's expression); "
        "decided clauses: _check_finite rejects, for every member of the declared OneItem union, negative and "
        "unbounded order items with IndexError and accepts the valid ones (interpreted on representatives), both "
        "validators dominate index resolution and evaluation, at most one evaluation while cached, a PENDING hit "
        "raises RuntimeError, the shipped recursions are well-founded; the trial array is large enough for every order an "
        "index item selects (ints, lists, stepped slices) [E2.check_finite]; the evals of finite-only views read the parent at "
        "`item + index` (the user's own index expression, so numpy decides which blocks a slice selects), and a view that "
        "translates positions itself from the start of each slice only is reported [E2.views]."),
)

prop(
    "C20", level="other", selftest=["block_diagonalization"],
    rules=[e5.rule_guards, e5.rule_h0_block_diagonal, e5.rule_guard_dominance, e5.rule_symbolic_hermiticity,
           e5.rule_total_callbacks, e7b.rule_shared_eigenvalue_check, diag_solver_real, helpers_rejections, e5.rule_dict_pairing],
    explanation=(
        "Each rejection the property lists is located as a raise whose path condition has exactly the required truth "
        "table over canonical atoms (robust to De-Morgan / nesting / early-return rewrites) and that precedes the "
        "construction of the computation or the first use of the ill-defined quantity; the shared-eigenvalue check "
        "compares all pairs, precedes every division and is memoised only after passing; every reciprocal of an energy "
        "difference reachable with index[0] == index[1] is guarded (finiteness); every eval / solver / mask callback "
        "ends in `return <value>` or `raise` on all paths."
        " Position-wise pairings of two dictionaries (zip of their views) are pairings by key only if the second dictionary is built "
        "by iterating the first one itself [E5.pairing]; linalg.is_diagonal inspects every off-diagonal entry of a dense H_0 "
        "[E11.is_diagonal]."),
)

NOT_APPLICABLE = {
    "C15": "every clause relates the outputs of two runs on transformed inputs (relabelling, rotation, conjugation, "
           "shift, scaling, direct sum); the position-dependent constructs it worries about are decided as parts of "
           "C01/C02 (mode analysis of commuting_blocks[index[0]], adjoint fills), but no clause of C15 itself is visible "
           "in the shape of the code without becoming a proxy",
}
