#!/venv/bin/python
"""Run the repository's test suite (parallel, no coverage) and compare with BASELINE.json.

usage: baseline_check.py [repo_dir]     exit 0 iff every stable_pass test passes.
Not a property check; used to validate `fix:` commits and seeded variants.
"""
import json, subprocess, sys, tempfile, os, xml.etree.ElementTree as ET
repo = sys.argv[1] if len(sys.argv) > 1 else "/repo"
base = json.load(open("/root/.vp/BASELINE.json"))
want = set(base["stable_pass"])
with tempfile.TemporaryDirectory() as d:
    xml = os.path.join(d, "j.xml")
    env = dict(os.environ, PYTHONPATH=repo)
    env.pop("PYMABLOCK_VERIF", None)
    subprocess.run(["/venv/bin/python", "-m", "pytest", "-q", "-p", "no:cacheprovider", "-o", "addopts=",
                    "pymablock", "-n", "14", "--timeout=900", f"--junitxml={xml}"],
                   cwd=repo, env=env, stdout=subprocess.DEVNULL, stderr=subprocess.DEVNULL)
    passed = set()
    for tc in ET.parse(xml).getroot().iter("testcase"):
        if not any(c.tag in ("failure", "error", "skipped") for c in tc):
            passed.add(f"{tc.get('classname')}::{tc.get('name')}")
missing = sorted(want - passed)
extra = sorted(passed - want)
print(f"baseline stable_pass={len(want)} passed_now={len(passed)} missing={len(missing)} newly_passing={len(extra)}")
for m in missing:
    print("  MISSING", m)
sys.exit(1 if missing else 0)
