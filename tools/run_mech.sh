#!/bin/bash
# Mechanical behaviour-preserving rewrites (tools/mech_refactor.py) of a scratch copy of HEAD's pymablock, one mode at a time; every
# quick check runs on the rewritten copy.  A VIOLATION is a false alarm.  usage: run_mech.sh [mode ...]
modes=${@:-none mirror comp2loop kwargs demorgan unelse ifexp2stmt negcmp unchain rettemp unwalrus dictlit invertif tuplesplit}
cd /verif
for m in $modes; do
  d=$(mktemp -d /tmp/sv-mech-XXXXXX)
  git -C /repo archive HEAD pymablock | tar -x -C "$d"
  cp /repo/pymablock/_version.py "$d/pymablock/" 2>/dev/null
  n=$(/venv/bin/python /verif/tools/mech_refactor.py "$d" $m | tail -1)
  res=""
  for p in C01 C02 C03 C04 C05 C06 C07 C08 C09 C10 C11 C12 C13 C14 C16 C17 C18 C19 C20; do
    /venv/bin/python -m sv $p --repo "$d" --no-write > /tmp/sv-mech-out.txt 2>&1; code=$?
    res="$res $p=$code"
  done
  rm -rf "$d"
  ok=$(echo "$res" | tr ' ' '\n' | grep -c "=0"); v=$(echo "$res" | tr ' ' '\n' | grep -c "=1"); u=$(echo "$res" | tr ' ' '\n' | grep -c "=2")
  echo "== $m ($n): ok=$ok violation=$v undecided=$u :$(echo "$res" | tr ' ' '\n' | grep -v '=0' | tr '\n' ' ')"
done
