#!/bin/bash
# Re-run every stored seeded change against the properties named in its meta.json, each on its own scratch copy of HEAD's
# pymablock (nothing is applied to /repo), several seeds in parallel.  usage: run_seeds_par.sh [jobs] [filter]
jobs=${1:-6}; filter=${2:-}
cd /verif
one() {
  s=$1
  props=$(/venv/bin/python -c "import json;m=json.load(open('/verif/$s/meta.json'));print(' '.join(sorted(m.get('caught_by',{}).keys())))")
  d=$(/verif/tools/scratch_tree.sh /verif/$s/patch.diff 2>/dev/null) || { echo "== $(basename $s): patch does not apply"; return; }
  out="== $(basename $s) ($props)"
  for p in $props; do
    o=$(/venv/bin/python -m sv $p --repo "$d" --no-write 2>&1); code=$?
    out="$out"$'\n'"$p exit=$code $(echo "$o" | grep -c 'VIOLATED') violated; $(echo "$o" | grep -E 'ANALYSIS-ERROR' | head -1 | cut -c1-200)"
  done
  rm -rf "$d"
  echo "$out"
}
export -f one
ls -d seeded/*${filter}*/ | sed 's:/$::' | xargs -P "$jobs" -I{} bash -c 'one {}'
