#!/bin/bash
# usage: run_all.sh [quick|thorough]  -- every claimed check in parallel against /repo; prints one line per property
tier=${1:-quick}
cd /verif
for p in C01 C02 C03 C04 C05 C06 C07 C08 C09 C10 C11 C12 C13 C14 C16 C17 C18 C19 C20; do
  ( /venv/bin/python -m sv $p --tier $tier > /tmp/.sv_${tier}_$p.log 2>&1; echo "$p $tier exit=$? $(grep -h 'self-test:' /tmp/.sv_${tier}_$p.log | sed 's/\[sv\] *//')"; grep -h "^VIOLATION\|^ANALYSIS-ERROR" /tmp/.sv_${tier}_$p.log | cut -c1-300; rm -f /tmp/.sv_${tier}_$p.log ) &
done 2>/dev/null
wait 2>/dev/null
