#!/venv/bin/python
"""Print the DESIGN.md table of seeded changes from seeded/*/meta.json (markdown)."""
import json, sys
from pathlib import Path
rows = []
for d in sorted(Path("/verif/seeded").iterdir()):
    m = d / "meta.json"
    if not m.exists():
        continue
    j = json.loads(m.read_text())
    if len(sys.argv) > 1 and sys.argv[1] not in j["id"]:
        continue
    caught = ", ".join(f"{k} ({v})" if i == 0 else k for i, (k, v) in enumerate(j.get("caught_by", {}).items()))
    change = j["change"] if len(j["change"]) < 170 else j["change"][:167] + "…"
    first = j.get("first_run", "")
    first = first if len(first) < 90 else first[:87] + "…"
    rows.append(f"| `{j['id']}` | {j['property']} | {change} | {first} | {caught} |")
print("| seed | property | change | first run | caught by (now) |\n|---|---|---|---|---|")
print("\n".join(rows))
