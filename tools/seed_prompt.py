#!/usr/bin/env python3
"""usage: seed_prompt.py <Cxx> <worktree dir>  -- prompt for an independent bug-seeding sub-agent.
The agent gets the property text, its own scratch worktree and the list of spots earlier seeds used (so that it picks a
different one); nothing else from /verif."""
import glob
import json
import sys

pid, wt = sys.argv[1], sys.argv[2]
prop = next(json.loads(l) for l in open("/verif/properties.jsonl") if json.loads(l)["id"] == pid)
text = (f"{pid}: {prop['title']}\n\nSTATEMENT: {prop['statement']}\n\nQUANTIFIER: {prop['quantifier']['text']}\n\n"
        f"WHY TESTS CANNOT SETTLE IT: {prop['why_tests_cant']}\n")
open(f"/tmp/prop-{pid}.txt", "w").write(text)
used = []
for f in sorted(glob.glob("/verif/seeded/*/meta.json")):
    m = json.load(open(f))
    if m["property"] == pid or pid in m.get("also_breaks", []):
        used.append(m["change"][:230])
used_txt = "\n".join(f"  - {u}" for u in used) or "  (none)"
print(f"""You are helping to test a verification framework by acting as a "bug seeder". You work ONLY inside the scratch git worktree {wt} (a checkout of the Python library pymablock: quasi-degenerate perturbation theory / block diagonalization of Hamiltonians). Do NOT read or touch /verif or /repo; do not use any information from there. Python with all dependencies: /venv/bin/python (always set PYTHONPATH={wt} so that `import pymablock` resolves to this worktree, and run from inside {wt}).

The semantic property under test (also in /tmp/prop-{pid}.txt):
---
{text}
---

Your job: make ONE small, realistic change to the library source under {wt}/pymablock (never the tests) that BREAKS this property, such that:
 1. the package still imports and the existing test suite still passes exactly as before. Check with: `/tmp/baseline_check.py {wt}` (runs the suite in parallel, ~1-3 min, prints `missing=0` when all 153 baseline tests still pass; exit code 0). Run it once BEFORE changing anything to see the baseline, and again after your change. Tests that fail both before and after do not matter. (One randomised test unrelated to your change occasionally flakes under load: rerun once if a single unrelated test is missing.)
 2. the breakage needs something specific to manifest -- a particular input class, block layout, order, mask, dtype, a multi-step sequence of operations, an exception at a particular point, a particular flag combination, or two cooperating sites that each look fine alone. NOT something ordinary use would expose at once. Think like a subtle regression a maintainer could plausibly introduce (an "optimisation", a refactor, an off-by-one, a wrong sign in a rarely taken branch, a cache, a dropped copy, a weakened check ...). Prefer changes of a few lines.
 3. you write a demonstration script {wt}/demo.py (pure python, uses numpy/sympy/scipy/pymablock only) that PASSES (exit code 0) on the unmodified checkout and FAILS (assertion error / non-zero exit) with your change applied; it must fail because the property is violated (compute the property's own oracle, e.g. compare against an independent dense/reference computation, or check the stated relation), not because of an unrelated crash. Verify both: `git diff -- pymablock > seed.patch; git checkout -- pymablock; run; git apply seed.patch; run`.
 4. save the change as a patch: `cd {wt} && git diff -- pymablock > {wt}/seed.patch` (leave the change applied in the worktree too).

Finish with a short report: the diff, which clause of the property it breaks and why, what exactly is needed for it to manifest, the output of demo.py with and without the change, and the final `baseline_check.py` line. If your first idea breaks existing tests, pick another. Do not spend time on more than one final change.

IMPORTANT: other seeders have already used the following spots for this property (or for a neighbouring one that also breaks it). Choose a DIFFERENT function and a DIFFERENT mechanism from all of them:
{used_txt}
Ideas that were rarely used so far and are welcome: a change that REWRITES a piece of code into a different but plausible shape while breaking it (a loop turned into a comprehension with a lost case, a helper extracted with one argument dropped, an early return that skips a step, a condition regrouped with one case lost); two cooperating edits that each look fine alone; a change in a rarely taken branch (symbolic values, sparse values, scipy LinearOperator blocks, more than two blocks, more than one perturbation parameter, asymmetric masks, non-Hermitian mode, list/dict/sympy input formats, second-quantised operators); a cache or memo with a subtly wrong key; a default argument; a helper in a different module (pymablock/series.py, algorithm_parsing.py, algorithms.py, linalg.py, kpm.py, number_ordered_form.py, second_quantization.py, block_diagonalization.py). In this checkout the baseline check prints missing=0 before and after; all defects mentioned in the property's 'why tests cannot settle it' text have been repaired, so seed a NEW one.""")
