#!/bin/bash
# usage: scratch_tree.sh <patch>   -- prints the path of a scratch copy of pymablock with <patch> applied (the caller removes it).
# The stored patches were made against b114d4b (the tree before the fix F11).  A patch that does not apply to HEAD any more is applied
# to that base, and the one-line repair F11 (np.resize -> np.broadcast_to in solve_sylvester_diagonal, whatever shape the refactoring
# gave that function) is carried over, so that every scratch tree contains all eleven fixes.
patch=$1
BASE=b114d4b
d=$(mktemp -d /tmp/sv-scratch-XXXXXX)
git -C /repo archive HEAD pymablock | tar -x -C "$d"
cp /repo/pymablock/_version.py "$d/pymablock/" 2>/dev/null
if ( cd "$d" && patch -p1 -s --dry-run < "$patch" ) >/dev/null 2>&1; then
  ( cd "$d" && patch -p1 -s < "$patch" ) >/dev/null 2>&1
else
  rm -rf "$d/pymablock"
  git -C /repo archive $BASE pymablock | tar -x -C "$d"
  cp /repo/pymablock/_version.py "$d/pymablock/" 2>/dev/null
  if ! ( cd "$d" && patch -p1 -s < "$patch" ) >/dev/null 2>&1; then rm -rf "$d"; echo "patch does not apply" >&2; exit 2; fi
  sed -i 's/np\.resize(/np.broadcast_to(/' "$d/pymablock/block_diagonalization.py"
fi
echo "$d"
