#!/venv/bin/python
"""Regenerate /verif/MANIFEST.json from sv/props.py (single source of truth)."""
import json, sys
sys.path.insert(0, "/verif")
from sv.props import PROPS, NOT_APPLICABLE

LEVEL_TEXT = {
 "C01": "All defining equations of the Hermitian algorithm are discharged as polynomial identities for every block layout, order, mask and value at once; remaining obligations tie the ideal DSL semantics to the Python that implements it.",
 "C02": "Unitarity, adjoint pairing and Hermiticity are identities of the same certificate; the Hermitian shortcuts are decided by a finite multiplicity table and index-form rules.",
 "C03": "Gauge + well-foundedness => the DSL computes the unique least-action solution; the runtime comparison with a reference solver is replaced by that argument at the algorithm layer.",
 "C04": "Proof of the structural cause only (H_tilde = S[U†HU], U unitary, R[U†HU] = 0); the spectral comparison itself is numerical and not claimed.",
 "C05": "Same certificate for the non-Hermitian algorithm; one obligation fails today (recorded defect K1), hence rule conformance, not proof.",
 "C06": "Structural necessary conditions only: breaking any of them makes implicit != explicit for generic complex input; numerical equality of the two paths is not decided.",
 "C07": "One clause only (U†U = 1 and U†HU = H_tilde within the operator algebra): E1's certificate transfers once the operator-mode wiring supplies the algebra faithfully (E12 entry/exit maps, operator solver, masks); the Fock-state comparison with truncated matrices is not decided.",
 "C08": "Rule conformance on necessary conditions of faithfulness (operator order, shift effects, crossing sets, linear structure); the undecided remainder is listed.",
 "C09": "Translation validation of the compiler's output for the shipped and the documented program under all index classes and flag combinations.",
 "C10": "Ownership / effect analysis, exhaustive over the functions of the evaluation modules.",
 "C11": "Typestate on the CFG with exceptional edges, exhaustive over the paths of the function that owns the marker.",
 "C12": "Dependency-cone rules (range/affine analysis, dominance, zero-order subscripts), exhaustive over the listed constructs.",
 "C13": "Uniform-component and homogeneity typing; the relations between runs are not evaluated.",
 "C14": "Denotation of the projection and consistency of the normalisation layers; cross-format equality is not decided.",
 "C16": "Sibling cross-check of all solver branches against one contract.",
 "C17": "Denotational obligations, exhaustive over the class (methods x modes, cache stores, base-class attributes).",
 "C18": "Index-arithmetic, dominance and finite-table rules over product_by_order / cauchy_dot_product.",
 "C19": "Validator exhaustiveness over the declared index union by abstract interpretation on representatives, plus dominance.",
 "C20": "Guard truth tables + dominance + totality, exhaustive over the raise sites of the entry points.",
}
TECH = {
 "C01": "static analysis: equational check of the DSL syntax tree by term rewriting; AST sibling/dataflow rules",
 "C02": "static analysis: term rewriting over the DSL AST; finite truth-table evaluation of guard conditions; index-form AST rules",
 "C03": "static analysis: term rewriting over the DSL AST; dependency-graph acyclicity",
 "C04": "static analysis: term rewriting over the DSL AST",
 "C05": "static analysis: term rewriting over the DSL AST",
 "C06": "static analysis: AST wiring rules, operator-denotation evaluation, CFG dominance",
 "C07": "static analysis: term rewriting over the DSL AST; resolved-path case tables of the operator-mode entry/exit closures (AST path enumeration with a small typestate), solver-selection and mask wiring rules",
 "C08": "static analysis: path-sensitive effect abstraction over the AST (finite domain), order extraction and comparison",
 "C09": "static analysis: abstract interpretation of the compiler's generated ASTs vs reference translation",
 "C10": "static analysis: flow-sensitive freshness (ownership/effect) dataflow, who-may-write rules",
 "C11": "static analysis: typestate on a statement CFG with exceptional edges, dominators",
 "C12": "static analysis: range/affine analysis, CFG dominance, subscript classification, dependency graph",
 "C13": "static analysis: AST range/affine analysis, linearity typing of the DSL",
 "C14": "static analysis: operator-denotation evaluation, AST consistency rules",
 "C16": "static analysis: role dataflow over solver branches (sibling cross-check), CFG must-pass-through",
 "C17": "static analysis: abstract interpretation of class methods over operator denotations; attribute-initialisation analysis against the installed SciPy source",
 "C18": "static analysis: range/affine analysis, CFG dominance, finite multiplicity table",
 "C19": "static analysis: abstract interpretation of the validator on representatives of the declared union; CFG dominators",
 "C20": "static analysis: guard path-condition truth tables, CFG dominance, return-totality on CFG",
}
ENGINE = {"C01":"E1","C02":"E1+E2","C03":"E1","C04":"E1","C05":"E1","C06":"E8+E6+E7","C07":"E1+E12+E7+E10","C08":"E10","C09":"E9","C10":"E4+E3","C11":"E3",
          "C12":"E2","C13":"E2","C14":"E6+E2","C16":"E7","C17":"E6","C18":"E2","C19":"E2+E3","C20":"E5+E7"}
checks = []
for pid, spec in PROPS.items():
    checks.append({
        "property_id": pid,
        "quick_cmd": f"/venv/bin/python -m sv {pid} --tier quick",
        "thorough_cmd": f"/venv/bin/python -m sv {pid} --tier thorough",
        "evidence_file": f"/verif/evidence/{pid}.json",
        "replay_cmd_template": "/venv/bin/python -m sv --replay {path}",
        "engine": ENGINE[pid],
        "level_claimed": {"category": spec["level"], "text": LEVEL_TEXT[pid], "design_ref": f"DESIGN.md section 4, {pid}"},
        "level_note": "; ".join(spec.get("trusted_base", [])[:4]) or
                      "trusted: the rule implementations under /verif/sv, the stated meaning of numpy/scipy/sympy operators; "
                      "unknown idioms stop the analysis (exit 2), they never pass silently",
        "technique": TECH[pid],
    })
manifest = {
 "version": 1,
 "setup_cmd": "mkdir -p /verif/evidence /verif/replay",
 "hooks": {
  "guard": "PYMABLOCK_VERIF",
  "enable": "none needed: the checks read /repo's working tree statically; there are no hook commits (guard name reserved, unused)",
  "baseline_off_cmd": "cd /repo && /venv/bin/python -m pytest -ra -q -p no:cacheprovider --timeout=900 --continue-on-collection-errors",
  "source_commits": [],
  "add_only": True,
 },
 "engines": [
  {"name": "E1", "path": "sv/e1.py sv/e1b.py sv/algebra.py sv/dsl.py", "serves_properties": ["C01","C02","C03","C04","C05","C18"], "kind_free_text": "equational certificate of the algorithm DSL by term rewriting; projection-pair and scope rules"},
  {"name": "E2", "path": "sv/e2.py sv/e2b.py sv/e2c.py sv/paths.py sv/absval.py sv/sem.py sv/resolve.py", "serves_properties": ["C01","C02","C03","C04","C05","C07","C09","C12","C13","C14","C18","C19"], "kind_free_text": "order/grading analyses: range/affine, multiplicity tables, dominance, laziness, validator exhaustiveness"},
  {"name": "E3", "path": "sv/e3.py sv/cfg.py", "serves_properties": ["C10","C11","C12","C19"], "kind_free_text": "typestate of the memo on a CFG with exceptional edges; who-may-write"},
  {"name": "E4", "path": "sv/e4.py", "serves_properties": ["C10","C11"], "kind_free_text": "flow-sensitive freshness / in-place-mutation analysis; closure-state inventory"},
  {"name": "E5", "path": "sv/e5.py", "serves_properties": ["C20","C14"], "kind_free_text": "validation guards: truth tables, dominance, callback totality"},
  {"name": "E6", "path": "sv/e6.py sv/linden.py", "serves_properties": ["C17","C06","C14","C16"], "kind_free_text": "operator denotation of ComplementProjector; base-state rule against the installed SciPy"},
  {"name": "E7", "path": "sv/e7.py sv/e7b.py", "serves_properties": ["C16","C01","C02","C03","C04","C05","C06","C07","C10","C11","C13","C20"], "kind_free_text": "Sylvester / Green's-function solver siblings on resolved paths (diagonal, direct, KPM, second-quantised)"},
  {"name": "E8", "path": "sv/e8.py", "serves_properties": ["C06"], "kind_free_text": "implicit-mode wiring"},
  {"name": "E9", "path": "sv/e9.py", "serves_properties": ["C09","C10","C12","C01","C02","C03","C04","C05","C07"], "kind_free_text": "translation validation of the DSL compiler's IR; runtime support; deletion safety"},
  {"name": "E10", "path": "sv/e10.py", "serves_properties": ["C08","C07"], "kind_free_text": "NumberOrderedForm order agreement, crossing sets, shift-effect table"},
  {"name": "E11", "path": "sv/e11.py", "serves_properties": ["C01","C02","C03","C04","C05","C06","C07","C14","C16","C20"], "kind_free_text": "contracts of the small helper functions the other engines rely on"},
  {"name": "E12", "path": "sv/e12.py", "serves_properties": ["C07"], "kind_free_text": "operator-mode wiring of block_diagonalize (entry / exit maps, solver selection)"},
 ],
 "checks": checks,
 "not_applicable": [{"property_id": k, "reason": v} for k, v in NOT_APPLICABLE.items()],
 "notes": "Entry point: /venv/bin/python -m sv <Cxx> --tier quick|thorough (cwd /verif). Exit 0 held / 1 VIOLATION / 2 ANALYSIS-ERROR. "
          "Known findings: /verif/known_findings.json. Thorough tier = the same rules plus a mutation self-test of the checker "
          "(seeded and benign variants on scratch copies under a temp dir).",
}
json.dump(manifest, open("/verif/MANIFEST.json", "w"), indent=1, ensure_ascii=False)
print("checks", len(checks), "n/a", len(NOT_APPLICABLE))
