#!/usr/bin/env python3
"""usage: seed_prompt5.py <Cxx> <worktree dir>  -- like seed_prompt.py, for a worktree that already carries a behaviour-preserving
refactoring (base.patch, uncommitted): the seed is made on top of the refactored code."""
import subprocess
import sys

pid, wt = sys.argv[1], sys.argv[2]
base = subprocess.run(["/verif/tools/seed_prompt.py", pid, wt], capture_output=True, text=True, check=True).stdout
extra = f"""

SPECIAL SITUATION OF THIS WORKTREE: {wt} already contains UNCOMMITTED changes -- a behaviour-preserving refactoring of several modules made by other developers (saved as {wt}/base.patch; `git diff` shows it). Treat that refactored code as the starting point: read it as it is now, and make your change on top of it. Wherever the instructions above say "unmodified checkout" they mean "the worktree with base.patch applied and nothing else". Therefore:
 - save your result as the COMPLETE diff against HEAD: `cd {wt} && git diff -- pymablock > {wt}/full.patch` (it contains the refactoring plus your change); do not produce seed.patch;
 - verify the demo like this: `git checkout -- pymablock && git apply base.patch && <run demo: must exit 0>`; then `git checkout -- pymablock && git apply full.patch && <run demo: must exit non-zero>`; leave full.patch applied at the end;
 - run `/tmp/baseline_check.py {wt}` with base.patch only (before your change) and with full.patch (after); both must print missing=0;
 - prefer to place your change INSIDE code that the refactoring touched (new helpers, restructured loops, renamed locals), so that it is a regression of the refactored code, not of the original one. In your report, show only YOUR part of the diff (e.g. `git diff` output of the hunks you changed, or an `interdiff`-like description), not the whole refactoring.
"""
print(base + extra)
