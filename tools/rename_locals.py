#!/usr/bin/env python3
"""usage: rename_locals.py <repo dir> [module ...]   -- rewrites, IN PLACE in <repo dir>, every local variable of every function of the
given pymablock modules (default: all analysed ones) to <name>_r.  Parameters, attributes, globals and function names are kept.
A purely mechanical behaviour-preserving refactoring used to find rules that depend on what a local is called."""
import ast
import builtins
import sys
from pathlib import Path

root = Path(sys.argv[1])
mods = sys.argv[2:] or ["series", "block_diagonalization", "algorithm_parsing", "linalg", "kpm", "second_quantization", "number_ordered_form"]
for mod in mods:
    path = root / "pymablock" / f"{mod}.py"
    src = path.read_text()
    tree = ast.parse(src)
    lines = src.splitlines(keepends=True)
    edits = []  # (lineno, col, end_col, new)
    module_names = {n.id for n in ast.walk(tree) if isinstance(n, ast.Name)} | {n.name for n in ast.walk(tree) if isinstance(n, (ast.FunctionDef, ast.ClassDef))}

    def regions(node):
        for ch in ast.iter_child_nodes(node):
            if isinstance(ch, (ast.FunctionDef, ast.AsyncFunctionDef)):
                yield ch
            elif isinstance(ch, ast.ClassDef):
                yield from regions(ch)
    for fn in regions(tree):
        params, declared = set(), set()
        for n in ast.walk(fn):
            if isinstance(n, (ast.FunctionDef, ast.Lambda)):
                a = n.args
                params |= {x.arg for x in [*a.posonlyargs, *a.args, *a.kwonlyargs]}
                if a.vararg:
                    params.add(a.vararg.arg)
                if a.kwarg:
                    params.add(a.kwarg.arg)
            if isinstance(n, (ast.Global, ast.Nonlocal)):
                declared |= set(n.names)
            if isinstance(n, ast.ExceptHandler) and n.name:
                declared.add(n.name)  # `except E as name` is not a Name node: leave it alone
        defs = {n.name for n in ast.walk(fn) if isinstance(n, (ast.FunctionDef, ast.ClassDef))}
        bound = {n.id for n in ast.walk(fn) if isinstance(n, ast.Name) and isinstance(n.ctx, (ast.Store, ast.Del))}
        bound -= params | declared | defs | set(dir(builtins))
        # keyword names in calls of local callables and string keys are untouched; names that would collide are skipped
        bound = {b for b in bound if (b + "_r") not in module_names and not b.startswith("__")}
        for n in ast.walk(fn):
            if isinstance(n, ast.Name) and n.id in bound and n.lineno == n.end_lineno:
                edits.append((n.lineno, n.col_offset, n.end_col_offset, n.id + "_r"))
    # apply from the end; columns are utf-8 byte offsets
    for lineno, col, end, new in sorted(set(edits), reverse=True):
        b = lines[lineno - 1].encode("utf-8")
        lines[lineno - 1] = (b[:col] + new.encode() + b[end:]).decode("utf-8")
    out = "".join(lines)
    ast.parse(out)
    path.write_text(out)
    print(mod, len(set(edits)), "renamed occurrences")
