#!/usr/bin/env python3
"""usage: seed_meta.py <seed-id> <property> <round> <first_run> --change ... --needs ... --strengthening ...
Applies /verif/seeded/<id>/patch.diff to /repo, runs every quick check, reverts, and writes meta.json with what caught it."""
import argparse
import json
import re
import subprocess

ap = argparse.ArgumentParser()
ap.add_argument("id"); ap.add_argument("property"); ap.add_argument("round"); ap.add_argument("first_run")
ap.add_argument("--change", required=True); ap.add_argument("--needs", required=True); ap.add_argument("--strengthening", default="none needed")
ap.add_argument("--confirmed", default="tools/confirm_seed.sh: the 153 baseline tests still pass with the change; demo.py exits 1 with the change and 0 without")
a = ap.parse_args()
patch = f"/verif/seeded/{a.id}/patch.diff"
PROPS = "C01 C02 C03 C04 C05 C06 C07 C08 C09 C10 C11 C12 C13 C14 C16 C17 C18 C19 C20".split()
subprocess.run(["git", "-C", "/repo", "apply", patch], check=True)
caught, undecided = {}, []
try:
    for p in PROPS:
        r = subprocess.run(["/venv/bin/python", "-m", "sv", p, "--no-write"], cwd="/verif", capture_output=True, text=True)
        if r.returncode == 1:
            rules = []
            for line in r.stdout.splitlines():
                m = re.match(r"\[sv\] VIOLATED rule=(\S+) at \S+ (.*)", line)
                if m:
                    rules.append(f"{m.group(1).rstrip(':')}: {m.group(2)[:110]}")
            caught[p] = rules[0] if rules else "?"
        elif r.returncode == 2:
            undecided.append(p)
finally:
    subprocess.run(["git", "-C", "/repo", "checkout", "--", "."], check=True)
meta = {
    "id": a.id, "property": a.property, "also_breaks": [p for p in caught if p != a.property],
    "origin": f"independent sub-agent (round {a.round}) given only the text of {a.property} and a scratch worktree",
    "change": a.change, "needs_to_manifest": a.needs, "confirmed": a.confirmed,
    "first_run": a.first_run, "strengthening": a.strengthening, "caught_by": caught,
}
if undecided:
    meta["undecided_with_the_change"] = undecided
json.dump(meta, open(f"/verif/seeded/{a.id}/meta.json", "w"), indent=1, ensure_ascii=False)
print(a.id, "caught by", sorted(caught), "undecided", undecided)
