#!/bin/bash
# usage: check_patch.sh <patch> <props...>  -> prints per property exit code and first lines
/verif/tools/try_seed.sh "$@"
