#!/bin/bash
# usage: confirm_seed5.sh <worktree> <seed-id>   (worktree = HEAD + base.patch (refactoring) + the seeded change, uncommitted)
set -u
wt=$1; id=$2
cd "$wt" || exit 2
cp /repo/pymablock/_version.py pymablock/_version.py 2>/dev/null
git diff -- pymablock > /tmp/seed-$id.full.patch
[ -s /tmp/seed-$id.full.patch ] || { echo "no change in worktree"; exit 2; }
base=$(/verif/tools/baseline_check.py "$wt" | head -1)
PYTHONPATH=$wt timeout 900 /venv/bin/python demo.py > /tmp/seed-$id.with.log 2>&1; with=$?
git checkout -q -- pymablock; cp /repo/pymablock/_version.py pymablock/_version.py
git apply base.patch || { echo "base.patch does not apply"; exit 2; }
PYTHONPATH=$wt timeout 900 /venv/bin/python demo.py > /tmp/seed-$id.without.log 2>&1; without=$?
git diff -- pymablock > /tmp/seed-$id.base.patch
git checkout -q -- pymablock; git apply /tmp/seed-$id.full.patch
echo "seed=$id baseline: $base | demo with change exit=$with, on the refactored base exit=$without"
mkdir -p /verif/seeded/$id
cp /tmp/seed-$id.full.patch /verif/seeded/$id/patch.diff
cp /tmp/seed-$id.base.patch /verif/seeded/$id/base.patch
cp demo.py /verif/seeded/$id/demo.py
tail -5 /tmp/seed-$id.with.log > /verif/seeded/$id/demo_with_change.log
tail -5 /tmp/seed-$id.without.log > /verif/seeded/$id/demo_without_change.log
