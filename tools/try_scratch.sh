#!/bin/bash
# usage: try_scratch.sh <patch> [props...]  -- like try_seed.sh, but on a scratch copy of HEAD's pymablock (does not touch /repo's
# working tree, so it can run while something else uses /repo); the copy is removed afterwards
set -u
patch=$1; shift
d=$(/verif/tools/scratch_tree.sh "$patch") || { echo "patch does not apply"; exit 2; }
props=${@:-C01 C02 C03 C04 C05 C06 C07 C08 C09 C10 C11 C12 C13 C14 C16 C17 C18 C19 C20}
cd /verif
for p in $props; do
  out=$(/venv/bin/python -m sv $p --repo "$d" --no-write 2>&1); code=$?
  echo "$p exit=$code $(echo "$out" | grep -c 'VIOLATED') violated; $(echo "$out" | grep -E 'ANALYSIS-ERROR' | head -1)"
  echo "$out" | grep -E "^\[sv\] VIOLATED" | head -3
done
rm -rf "$d"
