#!/bin/bash
# usage: confirm_seed.sh <worktree> <seed-id>
# Confirms a seeded change: (1) suite baseline still passes with it, (2) demo fails with / passes without,
# then stores patch.diff + demo.py under /verif/seeded/<seed-id>/ and prints a summary line.
set -u
wt=$1; id=$2
cd "$wt" || exit 2
cp /repo/pymablock/_version.py pymablock/_version.py 2>/dev/null
git diff -- pymablock > /tmp/seed-$id.patch
[ -s /tmp/seed-$id.patch ] || { echo "no change in worktree"; exit 2; }
base=$(/verif/tools/baseline_check.py "$wt" | head -1)
PYTHONPATH=$wt timeout 900 /venv/bin/python demo.py > /tmp/seed-$id.with.log 2>&1; with=$?
git stash -q
PYTHONPATH=$wt timeout 900 /venv/bin/python demo.py > /tmp/seed-$id.without.log 2>&1; without=$?
git stash pop -q
echo "seed=$id baseline: $base | demo with change exit=$with, without exit=$without"
mkdir -p /verif/seeded/$id
cp /tmp/seed-$id.patch /verif/seeded/$id/patch.diff
cp demo.py /verif/seeded/$id/demo.py
tail -5 /tmp/seed-$id.with.log > /verif/seeded/$id/demo_with_change.log
tail -5 /tmp/seed-$id.without.log > /verif/seeded/$id/demo_without_change.log
