#!/bin/bash
# Re-run every stored seeded change against the properties named in its meta.json (property + also_breaks).
cd /verif
for s in seeded/*/; do
  id=$(basename $s)
  props=$(/venv/bin/python -c "import json;m=json.load(open('/verif/$s/meta.json'));print(' '.join(sorted(m.get('caught_by',{}).keys())))")
  echo "== $id ($props)"
  /verif/tools/try_seed.sh /verif/${s}patch.diff $props | grep -E "exit=" 
done
