#!/bin/bash
# For every stored seed whose patch still applies on top of a refactored tree (default: the combination of R13-R16), run the
# checks named in its meta.json: the seed must still be reported although the surrounding code has another shape.
base=${1:-/verif/benign/combined-R13-R14-R15-R16.patch}
cd /repo || exit 2
git diff --quiet || { echo "repo not clean"; exit 2; }
for s in /verif/seeded/*/; do
  id=$(basename $s)
  git apply "$base" || { echo "base does not apply"; exit 2; }
  if git apply --check "$s/patch.diff" 2>/dev/null; then
    git apply "$s/patch.diff"
    props=$(/venv/bin/python -c "import json;m=json.load(open('$s/meta.json'));print(' '.join(sorted(m.get('caught_by',{}).keys())))")
    res=""
    for p in $props; do
      (cd /verif && /venv/bin/python -m sv $p --no-write >/dev/null 2>&1); res="$res $p=$?"
    done
    echo "$id:$res"
  else
    echo "$id: (patch does not apply on the refactored tree)"
  fi
  git checkout -- .
done
