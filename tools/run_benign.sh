#!/bin/bash
# Apply each behaviour-preserving patch under /verif/benign to /repo, run every quick check, revert.
# A VIOLATION on a benign patch is a false alarm; exit 2 means "cannot decide".
cd /verif
for p in benign/*.patch; do
  echo "== $(basename $p)"
  /verif/tools/try_seed.sh /verif/$p 2>&1 | grep -E "exit=" | awk '{c[$2]++; if ($2!="exit=0") l=l" "$1"("$2")"} END {printf "   ok=%d violation=%d undecided=%d :%s\n", c["exit=0"], c["exit=1"], c["exit=2"], l}'
done
