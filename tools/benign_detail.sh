#!/bin/bash
# usage: benign_detail.sh <patch>  -> distinct VIOLATED / ANALYSIS-ERROR lines over all properties
cd /repo && git apply "$1" || exit 2
cd /verif
for p in C01 C02 C03 C04 C05 C06 C07 C08 C09 C10 C11 C12 C13 C14 C16 C17 C18 C19 C20; do /venv/bin/python -m sv $p --no-write 2>&1 | grep -E "^\[sv\] VIOLATED|^ANALYSIS-ERROR" | sed -E "s/property=C[0-9]+ //; s/ at pymablock[^:]*:[0-9()a-z ]*:/:/" ; done | sort | uniq -c | sort -rn
git -C /repo checkout -- .
