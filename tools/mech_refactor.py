#!/usr/bin/env python3
"""usage: mech_refactor.py <repo dir> <mode> [module ...]
Mechanical, behaviour-preserving rewrites of the analysed modules IN PLACE in <repo dir> (a scratch worktree), to find rules that
depend on how something is spelled rather than on what it does.  Modes:
  mirror   a < b -> b > a (single comparisons of side-effect-free operands); operands of == / != / is / is not swapped
  comp2loop   `name = [E for T in IT if C]` / `{K: V for ...}` statements -> `name = []` + appending loop (loop variables renamed
              to fresh names so that nothing leaks into the function's scope)
  kwargs   2nd and later positional arguments of calls to functions defined in the same module -> keyword arguments
  demorgan `not (a and b)` <-> `(not a) or (not b)` on if-tests; `if not c: A else: B` -> `if c: B else: A`
  unelse   `if c: ...return` + `else: B`  ->  B follows the if (guard clause)
  ifexp2stmt   `x = a if c else b`, `return a if c else b`  ->  if / else statements
  negcmp   `a is not b` -> `not (a is b)`, `not in`, `!=` likewise
  unchain  `a == b == c` -> `a == b and b == c`
  rettemp  `return EXPR` -> `returned_k = EXPR` + `return returned_k`
  unwalrus `if (x := E) is zero:` -> `x = E` + `if x is zero:`
  dictlit  `dict(a=1)` -> `{"a": 1}`
  invertif `if c: A else: B` -> `if not c: B else: A`
  tuplesplit   `a, b = x, y` -> `a = x` + `b = y`
  none     only re-printed by ast.unparse (the control)
algorithms.py is never touched (its source text is data).  The result is written with ast.unparse (comments are lost)."""
import ast
import sys
from pathlib import Path

root, mode = Path(sys.argv[1]), sys.argv[2]
mods = sys.argv[3:] or ["series", "block_diagonalization", "algorithm_parsing", "linalg", "kpm", "second_quantization", "number_ordered_form"]


def pure(e) -> bool:
    """no calls, no walrus: evaluating it twice or in another order changes nothing observable (attribute / item access of the
    package's own objects is treated as pure, as the code base does)"""
    return not any(isinstance(n, (ast.Call, ast.NamedExpr, ast.Await, ast.Yield, ast.YieldFrom, ast.Lambda)) for n in ast.walk(e))


class Mirror(ast.NodeTransformer):
    n = 0

    def visit_Compare(self, node):
        self.generic_visit(node)
        if len(node.ops) != 1 or not (pure(node.left) and pure(node.comparators[0])):
            return node
        flip = {ast.Lt: ast.Gt, ast.Gt: ast.Lt, ast.LtE: ast.GtE, ast.GtE: ast.LtE, ast.Eq: ast.Eq, ast.NotEq: ast.NotEq, ast.Is: ast.Is, ast.IsNot: ast.IsNot}
        t = type(node.ops[0])
        if t not in flip:
            return node
        if t in (ast.Is, ast.IsNot) and isinstance(node.comparators[0], ast.Constant):
            return node  # `x is None` stays (style), `None is x` would be odd but equal; keep the diff smaller
        Mirror.n += 1
        return ast.copy_location(ast.Compare(left=node.comparators[0], ops=[flip[t]()], comparators=[node.left]), node)


class Comp2Loop(ast.NodeTransformer):
    n = 0
    serial = 0

    def _rename(self, node, mapping):
        class R(ast.NodeTransformer):
            def visit_Name(self, n_):
                if n_.id in mapping:
                    return ast.copy_location(ast.Name(id=mapping[n_.id], ctx=n_.ctx), n_)
                return n_
        return R().visit(node)

    def _block(self, stmts):
        out = []
        for s in stmts:
            s = self.visit(s)
            if isinstance(s, ast.Assign) and len(s.targets) == 1 and isinstance(s.targets[0], ast.Name) \
                    and isinstance(s.value, (ast.ListComp, ast.DictComp)) and len(s.value.generators) == 1 \
                    and not s.value.generators[0].is_async \
                    and not any(isinstance(n, (ast.ListComp, ast.DictComp, ast.SetComp, ast.GeneratorExp, ast.Lambda, ast.NamedExpr))
                                for part in ([s.value.elt] if isinstance(s.value, ast.ListComp) else [s.value.key, s.value.value]) + s.value.generators[0].ifs
                                for n in ast.walk(part)) \
                    and not any(isinstance(n, ast.Name) and n.id == s.targets[0].id for n in ast.walk(s.value)):
                g = s.value.generators[0]
                Comp2Loop.serial += 1
                names = {n.id for n in ast.walk(g.target) if isinstance(n, ast.Name)}
                mapping = {nm: f"{nm}_c{Comp2Loop.serial}" for nm in names}
                acc = s.targets[0].id
                tgt = self._rename(g.target, mapping)
                if isinstance(s.value, ast.ListComp):
                    body = ast.Expr(value=ast.Call(func=ast.Attribute(value=ast.Name(id=acc, ctx=ast.Load()), attr="append", ctx=ast.Load()),
                                                   args=[self._rename(s.value.elt, mapping)], keywords=[]))
                    init = ast.List(elts=[], ctx=ast.Load())
                else:
                    body = ast.Assign(targets=[ast.Subscript(value=ast.Name(id=acc, ctx=ast.Load()), slice=self._rename(s.value.key, mapping), ctx=ast.Store())],
                                      value=self._rename(s.value.value, mapping))
                    init = ast.Dict(keys=[], values=[])
                for c in reversed(g.ifs):
                    body = ast.If(test=self._rename(c, mapping), body=[body], orelse=[])
                out.append(ast.copy_location(ast.Assign(targets=[ast.Name(id=acc, ctx=ast.Store())], value=init), s))
                out.append(ast.copy_location(ast.For(target=tgt, iter=g.iter, body=[body], orelse=[]), s))
                Comp2Loop.n += 1
            else:
                out.append(s)
        return out

    def generic_visit(self, node):
        super().generic_visit(node)
        for f in ("body", "orelse", "finalbody"):
            blk = getattr(node, f, None)
            if isinstance(blk, list) and blk and isinstance(blk[0], ast.stmt) and not isinstance(node, ast.ClassDef) and not isinstance(node, ast.Module):
                setattr(node, f, self._block(blk))
        return node


class KwArgs(ast.NodeTransformer):
    n = 0

    def __init__(self, defs):
        self.defs = defs

    def visit_Call(self, node):
        self.generic_visit(node)
        f = self.defs.get(node.func.id) if isinstance(node.func, ast.Name) else None
        if f is None or f.args.vararg or f.args.posonlyargs or any(isinstance(a, ast.Starred) for a in node.args) or len(node.args) < 2:
            return node
        params = [a.arg for a in f.args.args]
        if len(node.args) > len(params):
            return node
        extra = [ast.keyword(arg=params[i], value=a) for i, a in enumerate(node.args) if i >= 1]
        if any(k.arg in {e.arg for e in extra} for k in node.keywords):
            return node
        KwArgs.n += 1
        node.args = node.args[:1]
        node.keywords = extra + node.keywords
        return node


class DeMorgan(ast.NodeTransformer):
    n = 0

    def visit_If(self, node):
        self.generic_visit(node)
        t = node.test
        if isinstance(t, ast.UnaryOp) and isinstance(t.op, ast.Not) and node.orelse and not (len(node.orelse) == 1 and isinstance(node.orelse[0], ast.If)):
            DeMorgan.n += 1
            return ast.copy_location(ast.If(test=t.operand, body=node.orelse, orelse=node.body), node)
        if isinstance(t, ast.UnaryOp) and isinstance(t.op, ast.Not) and isinstance(t.operand, ast.BoolOp) and all(pure(v) or True for v in t.operand.values):
            inner = t.operand
            new_op = ast.Or() if isinstance(inner.op, ast.And) else ast.And()
            DeMorgan.n += 1
            node.test = ast.BoolOp(op=new_op, values=[ast.UnaryOp(op=ast.Not(), operand=v) for v in inner.values])
            return node
        if isinstance(t, ast.BoolOp) and len(t.values) == 2 and all(isinstance(v, ast.UnaryOp) and isinstance(v.op, ast.Not) for v in t.values):
            new_op = ast.Or() if isinstance(t.op, ast.And) else ast.And()
            DeMorgan.n += 1
            node.test = ast.UnaryOp(op=ast.Not(), operand=ast.BoolOp(op=new_op, values=[v.operand for v in t.values]))
            return node
        return node


class UnElse(ast.NodeTransformer):
    """`if c: ...; return X` + `else: B`  ->  the else branch follows the if (guard clause)"""
    n = 0

    def _block(self, stmts):
        out = []
        for s in stmts:
            if isinstance(s, ast.If) and s.orelse and isinstance(s.body[-1], (ast.Return, ast.Raise, ast.Continue, ast.Break)) \
                    and not (len(s.orelse) == 1 and isinstance(s.orelse[0], ast.If)):
                UnElse.n += 1
                rest = s.orelse
                s.orelse = []
                out.append(s)
                out.extend(rest)
            else:
                out.append(s)
        return out

    def generic_visit(self, node):
        super().generic_visit(node)
        for f in ("body", "orelse", "finalbody"):
            blk = getattr(node, f, None)
            if isinstance(blk, list) and blk and isinstance(blk[0], ast.stmt):
                setattr(node, f, self._block(blk))
        return node


class IfExp2Stmt(ast.NodeTransformer):
    """`x = a if c else b` / `return a if c else b`  ->  if / else statements"""
    n = 0

    def _block(self, stmts):
        out = []
        for s in stmts:
            if isinstance(s, ast.Assign) and len(s.targets) == 1 and isinstance(s.targets[0], ast.Name) and isinstance(s.value, ast.IfExp):
                IfExp2Stmt.n += 1
                mk = lambda v: ast.Assign(targets=[ast.Name(id=s.targets[0].id, ctx=ast.Store())], value=v)
                out.append(ast.copy_location(ast.If(test=s.value.test, body=[mk(s.value.body)], orelse=[mk(s.value.orelse)]), s))
            elif isinstance(s, ast.Return) and isinstance(s.value, ast.IfExp):
                IfExp2Stmt.n += 1
                out.append(ast.copy_location(ast.If(test=s.value.test, body=[ast.Return(value=s.value.body)], orelse=[]), s))
                out.append(ast.copy_location(ast.Return(value=s.value.orelse), s))
            else:
                out.append(s)
        return out

    def generic_visit(self, node):
        super().generic_visit(node)
        for f in ("body", "orelse", "finalbody"):
            blk = getattr(node, f, None)
            if isinstance(blk, list) and blk and isinstance(blk[0], ast.stmt):
                setattr(node, f, self._block(blk))
        return node


class NegCmp(ast.NodeTransformer):
    """`a is not b` -> `not (a is b)`, `a not in b` -> `not (a in b)`, `a != b` -> `not (a == b)`"""
    n = 0

    def visit_Compare(self, node):
        self.generic_visit(node)
        flip = {ast.IsNot: ast.Is, ast.NotIn: ast.In}  # (`!=` is not `not ==` for arrays and sympy objects)
        if len(node.ops) == 1 and type(node.ops[0]) in flip:
            NegCmp.n += 1
            return ast.copy_location(ast.UnaryOp(op=ast.Not(), operand=ast.Compare(left=node.left, ops=[flip[type(node.ops[0])]()], comparators=node.comparators)), node)
        return node


class Unchain(ast.NodeTransformer):
    """`a == b == c` -> `a == b and b == c` when the middle operand is pure"""
    n = 0

    def visit_Compare(self, node):
        self.generic_visit(node)
        if len(node.ops) == 2 and pure(node.comparators[0]):
            Unchain.n += 1
            return ast.copy_location(ast.BoolOp(op=ast.And(), values=[
                ast.Compare(left=node.left, ops=[node.ops[0]], comparators=[node.comparators[0]]),
                ast.Compare(left=node.comparators[0], ops=[node.ops[1]], comparators=[node.comparators[1]])]), node)
        return node


class _BlockRewriter(ast.NodeTransformer):
    def _block(self, stmts):
        raise NotImplementedError

    def generic_visit(self, node):
        super().generic_visit(node)
        for f in ("body", "orelse", "finalbody"):
            blk = getattr(node, f, None)
            if isinstance(blk, list) and blk and isinstance(blk[0], ast.stmt) and not isinstance(node, (ast.ClassDef, ast.Module)):
                setattr(node, f, self._block(blk))
        return node


class RetTemp(_BlockRewriter):
    """`return EXPR` -> `returned_k = EXPR; return returned_k` (not for bare names / constants)"""
    n = 0

    def _block(self, stmts):
        out = []
        for s in stmts:
            if isinstance(s, ast.Return) and s.value is not None and not isinstance(s.value, (ast.Name, ast.Constant)):
                RetTemp.n += 1
                nm = f"returned_{RetTemp.n}"
                out.append(ast.copy_location(ast.Assign(targets=[ast.Name(id=nm, ctx=ast.Store())], value=s.value), s))
                out.append(ast.copy_location(ast.Return(value=ast.Name(id=nm, ctx=ast.Load())), s))
            else:
                out.append(s)
        return out


class Unwalrus(_BlockRewriter):
    """`if (x := E) <op> Y:` -> `x = E` + `if x <op> Y:` (the walrus is the first thing the test evaluates)"""
    n = 0

    def _block(self, stmts):
        out = []
        for s in stmts:
            t = s.test if isinstance(s, ast.If) else None
            first = t
            while isinstance(first, ast.UnaryOp):
                first = first.operand
            if isinstance(first, ast.Compare):
                first_cmp, first = first, first.left
            else:
                first_cmp = None
            if isinstance(s, ast.If) and isinstance(first, ast.NamedExpr) and sum(isinstance(x, ast.NamedExpr) for x in ast.walk(t)) == 1:
                Unwalrus.n += 1
                out.append(ast.copy_location(ast.Assign(targets=[ast.Name(id=first.target.id, ctx=ast.Store())], value=first.value), s))
                name = ast.Name(id=first.target.id, ctx=ast.Load())

                class Rep(ast.NodeTransformer):
                    def visit_NamedExpr(self, node):
                        return name
                s.test = Rep().visit(t)
                out.append(s)
            else:
                out.append(s)
        return out


class InvertIf(ast.NodeTransformer):
    """`if c: A else: B` -> `if not c: B else: A` (two-armed ifs without elif)"""
    n = 0

    def visit_If(self, node):
        self.generic_visit(node)
        if node.orelse and not (len(node.orelse) == 1 and isinstance(node.orelse[0], ast.If)) and not (isinstance(node.test, ast.UnaryOp) and isinstance(node.test.op, ast.Not)):
            InvertIf.n += 1
            return ast.copy_location(ast.If(test=ast.UnaryOp(op=ast.Not(), operand=node.test), body=node.orelse, orelse=node.body), node)
        return node


class TupleSplit(_BlockRewriter):
    """`a, b = x, y` -> `a = x` + `b = y` when no right-hand side mentions an earlier target"""
    n = 0

    def _block(self, stmts):
        out = []
        for s in stmts:
            if isinstance(s, ast.Assign) and len(s.targets) == 1 and isinstance(s.targets[0], ast.Tuple) and isinstance(s.value, ast.Tuple) \
                    and len(s.targets[0].elts) == len(s.value.elts) and all(isinstance(t, ast.Name) for t in s.targets[0].elts) \
                    and not any(isinstance(v, ast.Starred) for v in s.value.elts):
                names = [t.id for t in s.targets[0].elts]
                if not any(isinstance(x, ast.Name) and x.id in names for v in s.value.elts for x in ast.walk(v)):
                    TupleSplit.n += 1
                    for t, v in zip(s.targets[0].elts, s.value.elts):
                        out.append(ast.copy_location(ast.Assign(targets=[ast.Name(id=t.id, ctx=ast.Store())], value=v), s))
                    continue
            out.append(s)
        return out


class DictLit(ast.NodeTransformer):
    """`dict(a=1, b=2)` -> `{"a": 1, "b": 2}`"""
    n = 0

    def visit_Call(self, node):
        self.generic_visit(node)
        if isinstance(node.func, ast.Name) and node.func.id == "dict" and not node.args and node.keywords and all(k.arg for k in node.keywords):
            DictLit.n += 1
            return ast.copy_location(ast.Dict(keys=[ast.Constant(value=k.arg) for k in node.keywords], values=[k.value for k in node.keywords]), node)
        return node


for mod in mods:
    path = root / "pymablock" / f"{mod}.py"
    tree = ast.parse(path.read_text())
    if mode == "mirror":
        tree = Mirror().visit(tree)
        cnt = Mirror.n
    elif mode == "comp2loop":
        tree = Comp2Loop().visit(tree)
        cnt = Comp2Loop.n
    elif mode == "kwargs":
        defs = {n.name: n for n in tree.body if isinstance(n, ast.FunctionDef)}
        tree = KwArgs(defs).visit(tree)
        cnt = KwArgs.n
    elif mode == "demorgan":
        tree = DeMorgan().visit(tree)
        cnt = DeMorgan.n
    elif mode == "unelse":
        tree = UnElse().visit(tree)
        cnt = UnElse.n
    elif mode == "ifexp2stmt":
        tree = IfExp2Stmt().visit(tree)
        cnt = IfExp2Stmt.n
    elif mode in ("negcmp", "unchain", "rettemp", "unwalrus", "dictlit", "invertif", "tuplesplit"):
        T = {"negcmp": NegCmp, "unchain": Unchain, "rettemp": RetTemp, "unwalrus": Unwalrus, "dictlit": DictLit, "invertif": InvertIf,
             "tuplesplit": TupleSplit}[mode]
        tree = T().visit(tree)
        cnt = T.n
    elif mode == "none":
        cnt = 0  # only re-printed by ast.unparse: the control for the other modes
    else:
        sys.exit("unknown mode")
    ast.fix_missing_locations(tree)
    out = ast.unparse(tree) + "\n"
    ast.parse(out)
    path.write_text(out)
    print(mod, mode, cnt, "rewrites so far")
