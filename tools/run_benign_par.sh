#!/bin/bash
# Every behaviour-preserving patch under /verif/benign against all quick checks, each on its own scratch copy (nothing is applied to /repo).
# usage: run_benign_par.sh [jobs]
jobs=${1:-4}
cd /verif
one() {
  p=$1
  out=$(/verif/tools/try_scratch.sh /verif/$p 2>&1 | grep -E "exit=")
  echo "== $(basename $p)"$'\n'"$(echo "$out" | awk '{c[$2]++; if ($2!="exit=0") l=l" "$1"("$2")"} END {printf "   ok=%d violation=%d undecided=%d :%s\n", c["exit=0"], c["exit=1"], c["exit=2"], l}')"
}
export -f one
ls benign/*.patch | xargs -P "$jobs" -I{} bash -c 'one {}'
