#!/usr/bin/env python3
"""usage: gen_reference_locals.py [repo dir]  -- (re)generate sv/reference_locals.json, the spelling of the locals of every
top-level function / method of the analysed modules on the tree the rules were written on (see sv/alpha.py)."""
import json
import sys
from pathlib import Path

sys.path.insert(0, "/verif")
from sv import alpha  # noqa: E402
from sv.core import MODULES  # noqa: E402

root = Path(sys.argv[1] if len(sys.argv) > 1 else "/repo")
ref = alpha.build_reference(root / "pymablock", MODULES)
alpha.REF_PATH.write_text(json.dumps(ref, indent=0, sort_keys=True))
print({m: len(u) for m, u in ref.items()}, alpha.REF_PATH.stat().st_size, "bytes")
